/-
  C13 — Reset functions always produce well-formed initial states.

  "For every built-in reset function, every valid parameter combination and every seed, the initial
  state has the requested shape, an unbroken wall boundary, and the agent inside the grid,
  empty-handed, on a cell that does not block movement and is not an exit, moving obstacle or
  telepod, and contains exactly the advertised inventory (…). Parameter combinations that cannot be
  honoured raise ValueError instead of returning a malformed state or failing differently."

  Each theorem gives the *complete* cell-by-cell description of the generated grid, for every
  answer stream `d` (every seed / every resolution of the random choices).
-/
import GridVerse.Lemmas.Draw
import GridVerse.Agree.Objects
set_option linter.unusedSimpArgs false
namespace GV

/-- on the outer ring of an `h × w` grid -/
def onBorder (h w : Nat) (q : Pos) : Prop :=
  q.y = 0 ∨ q.y = (h : Int) - 1 ∨ q.x = 0 ∨ q.x = (w : Int) - 1
instance (h w : Nat) (q : Pos) : Decidable (onBorder h w q) := by unfold onBorder; exact inferInstance

/-- strictly inside the outer ring -/
def Interior (h w : Nat) (q : Pos) : Prop :=
  0 < q.y ∧ q.y < (h : Int) - 1 ∧ 0 < q.x ∧ q.x < (w : Int) - 1

/-- the grid of `empty`: walls on the ring, the exit at `ep`, floor elsewhere -/
def EmptyRoom (h w : Nat) (ep : Pos) (g : Grid) : Prop :=
  g.WF ∧ g.h = h ∧ g.w = w ∧
  ∀ q, g.contains q = true →
    g.at q = if q = ep then .exit .none else if onBorder h w q then .wall else .floor

theorem Grid.area_contains (g : Grid) (p : Pos) : g.area.contains p = g.contains p := by
  rw [Bool.eq_iff_iff, Grid.contains_iff, Area.contains_iff']
  simp only [Grid.area]
  constructor
  · rintro ⟨h1, h2, h3, h4⟩; exact ⟨h1, by omega, h3, by omega⟩
  · rintro ⟨h1, h2, h3, h4⟩; exact ⟨h1, by omega, h3, by omega⟩

theorem Interior.contains {h w : Nat} {q : Pos} {g : Grid} (hq : Interior h w q) (gh : g.h = h) (gw : g.w = w) :
    g.contains q = true := by
  rw [Grid.contains_iff, gh, gw]
  obtain ⟨h1, h2, h3, h4⟩ := hq
  omega

theorem Interior.not_border {h w : Nat} {q : Pos} (hq : Interior h w q) : ¬ onBorder h w q := by
  obtain ⟨h1, h2, h3, h4⟩ := hq
  unfold onBorder; omega

/-- the walled room before the exit is placed -/
theorem walled_room (h w : Nat) (hh : 1 ≤ h) (hw : 1 ≤ w) :
    ∃ g1, drawAll (Grid.fill h w .floor) (Grid.fill h w .floor).area.borderPositions .wall = .ok g1 ∧
      g1.WF ∧ g1.h = h ∧ g1.w = w ∧
      ∀ q, g1.contains q = true → g1.at q = if onBorder h w q then .wall else .floor := by
  have hg0 : (Grid.fill h w .floor).WF := Grid.tab_WF _ _ _
  have hawf : (Grid.fill h w .floor).area.WF := by
    simp only [Grid.area, Grid.fill, Grid.tab_h, Grid.tab_w, Area.WF]; omega
  obtain ⟨g1, e1, wf1, gh, gw, hat⟩ := drawAll_spec (Grid.fill h w .floor) hg0
    (Grid.fill h w .floor).area.borderPositions .wall (by
      intro p hp
      rw [mem_borderPositions _ hawf] at hp
      rw [← Grid.area_contains]; exact hp.1)
  refine ⟨g1, e1, wf1, gh, gw, ?_⟩
  intro q hq
  have hq0 : (Grid.fill h w .floor).contains q = true := by
    simp only [Grid.contains, gh, gw] at hq ⊢; exact hq
  rw [hat q]
  have hmb := mem_borderPositions _ hawf q
  rw [Grid.area_contains, hq0] at hmb
  simp only [Grid.area, Grid.fill, Grid.tab_h, Grid.tab_w, true_and] at hmb
  by_cases hb : onBorder h w q
  · have hm := hmb.mpr hb
    simp only [Grid.area, Grid.fill, Grid.tab_h, Grid.tab_w] at hm ⊢
    simp [hm, hb]
  · have hm : ¬ q ∈ (Grid.fill h w .floor).area.borderPositions := fun hm => hb (hmb.mp hm)
    rw [if_neg hm, if_neg hb, Grid.at_fill, hq0]
    rfl

theorem emptyExit_spec (g1 : Grid) (sh : Shape) (ra re : Bool) (d : DrawSt) (hh : 4 ≤ sh.h) (hw : 4 ≤ sh.w)
    (gh1 : g1.h = sh.h.toNat) (gw1 : g1.w = sh.w.toNat) :
    ∃ ep d1, emptyExit g1 sh ra re d = .ok (ep, d1) ∧ Interior sh.h.toNat sh.w.toNat ep ∧
      (ra = false → ep ≠ ⟨1, 1⟩) ∧ (re = false → ep = ⟨sh.h - 2, sh.w - 2⟩) := by
  cases re
  · refine ⟨⟨sh.h - 2, sh.w - 2⟩, d, rfl, ?_, ?_, fun _ => rfl⟩
    · unfold Interior; simp only; omega
    · intro _ h; have := congrArg Pos.y h; simp only at this; omega
  · -- random exit: the candidate list is non-empty ((2,2) is always a candidate)
    have hmem : (⟨2, 2⟩ : Pos) ∈ g1.area.insidePositions.filter fun p => ra || p != (⟨1, 1⟩ : Pos) := by
      simp only [List.mem_filter, mem_insidePositions, Grid.area, gh1, gw1]
      refine ⟨by omega, ?_⟩
      simp
    have hpos : 0 < (g1.area.insidePositions.filter fun p => ra || p != (⟨1, 1⟩ : Pos)).length :=
      List.length_pos_of_mem hmem
    obtain ⟨i, d1, hc, hi⟩ := drawChoice_pos _ hpos d
    have hget : (g1.area.insidePositions.filter fun p => ra || p != (⟨1, 1⟩ : Pos)).getD i ⟨1, 1⟩ ∈
        g1.area.insidePositions.filter fun p => ra || p != (⟨1, 1⟩ : Pos) := by
      simp [List.getD, hi]
    refine ⟨(g1.area.insidePositions.filter fun p => ra || p != (⟨1, 1⟩ : Pos)).getD i ⟨1, 1⟩, d1,
      by simp only [emptyExit, if_true, hc], ?_, ?_, fun h => Bool.noConfusion h⟩
    · generalize (g1.area.insidePositions.filter fun p => ra || p != (⟨1, 1⟩ : Pos)).getD i ⟨1, 1⟩ = x at hget
      have := (List.mem_filter.mp hget).1
      rw [mem_insidePositions] at this
      simp only [Grid.area, gh1, gw1] at this
      unfold Interior; omega
    · intro hra
      generalize (g1.area.insidePositions.filter fun p => ra || p != (⟨1, 1⟩ : Pos)).getD i ⟨1, 1⟩ = x at hget
      have := (List.mem_filter.mp hget).2
      simp only [hra, Bool.false_or, bne_iff_ne, ne_eq] at this
      exact this

theorem emptyAgent_spec (g2 : Grid) (h w : Nat) (ep : Pos) (ra : Bool) (d : DrawSt) (hh : 4 ≤ h) (hw : 4 ≤ w)
    (hroom : EmptyRoom h w ep g2) (hepne : ra = false → ep ≠ ⟨1, 1⟩) :
    ∃ ag d', emptyAgent g2 ra d = .ok (ag, d') ∧ Interior h w ag.pos ∧ ag.pos ≠ ep ∧ ag.held = .noneObj ∧
      (ra = false → ag.pos = ⟨1, 1⟩ ∧ ag.o = .R) := by
  obtain ⟨wf2, gh, gw, hat⟩ := hroom
  cases ra
  · have h11 : Interior h w ⟨1, 1⟩ := by unfold Interior; simp only; omega
    exact ⟨⟨⟨1, 1⟩, .R, .noneObj⟩, d, rfl, h11, fun h => hepne rfl h.symm, rfl, fun _ => ⟨rfl, rfl⟩⟩
  · have hfl : ∀ p, p ∈ floorPositions g2 → Interior h w p ∧ p ≠ ep := by
      intro p hp
      simp only [floorPositions, Grid.mem_find] at hp
      obtain ⟨hpc, hpk⟩ := hp
      have hatp := hat p hpc
      have hfloor := isKind_floor _ hpk
      rw [hatp] at hfloor
      by_cases hpe : p = ep
      · simp [hpe] at hfloor
      · simp only [hpe, if_false] at hfloor
        by_cases hb : onBorder h w p
        · simp [hb] at hfloor
        · refine ⟨?_, hpe⟩
          rw [Grid.contains_iff, gh, gw] at hpc
          unfold onBorder at hb
          unfold Interior; omega
    have hne : 0 < (floorPositions g2).length := by
      have cand : ∀ p, Interior h w p → p ≠ ep → p ∈ floorPositions g2 := by
        intro p hpi hpe
        have hpc : g2.contains p = true := hpi.contains gh gw
        simp only [floorPositions, Grid.mem_find]
        refine ⟨hpc, ?_⟩
        rw [hat p hpc]
        simp [hpe, hpi.not_border, Obj.isKind, Obj.kind]
      by_cases h1 : (⟨1, 1⟩ : Pos) = ep
      · apply List.length_pos_of_mem (cand ⟨2, 2⟩ (by unfold Interior; simp only; omega) ?_)
        intro h; rw [← h1] at h; have := congrArg Pos.y h; simp at this
      · exact List.length_pos_of_mem (cand ⟨1, 1⟩ (by unfold Interior; simp only; omega) h1)
    obtain ⟨i, d2, hc2, hi⟩ := drawChoice_pos _ hne d
    obtain ⟨k, d3, hc3, _⟩ := drawChoice_pos 4 (by omega) d2
    have hget : (floorPositions g2).getD i ⟨1, 1⟩ ∈ floorPositions g2 := by simp [List.getD, hi]
    obtain ⟨hin, hnee⟩ := hfl _ hget
    exact ⟨⟨(floorPositions g2).getD i ⟨1, 1⟩, orientList.getD k .F, .noneObj⟩, d3,
      by simp only [emptyAgent, if_true, hc2, hc3], hin, hnee, rfl, fun h => Bool.noConfusion h⟩

/-- `empty`: well-formed for every stream when both sides are at least 4 … -/
theorem C13_empty_wf (sh : Shape) (ra re : Bool) (d : DrawSt) (hv : 4 ≤ sh.h ∧ 4 ≤ sh.w) :
    ∃ s d', resetEmpty sh ra re d = .ok (s, d') ∧ ∃ ep,
      Interior sh.h.toNat sh.w.toNat ep ∧ EmptyRoom sh.h.toNat sh.w.toNat ep s.grid ∧
      Interior sh.h.toNat sh.w.toNat s.agent.pos ∧ s.agent.pos ≠ ep ∧ s.agent.held = .noneObj ∧
      (ra = false → s.agent.pos = ⟨1, 1⟩ ∧ s.agent.o = .R) ∧
      (re = false → ep = ⟨sh.h - 2, sh.w - 2⟩) := by
  obtain ⟨hh, hw⟩ := hv
  have hcond : (decide (sh.h < 4) || decide (sh.w < 4)) = false := by simp; omega
  obtain ⟨g1, e1, wf1, gh1, gw1, hat1⟩ := walled_room sh.h.toNat sh.w.toNat (by omega) (by omega)
  obtain ⟨ep, d1, hexeq, hepi, hepne, hepfix⟩ := emptyExit_spec g1 sh ra re d hh hw gh1 gw1
  have hepc : g1.contains ep = true := hepi.contains gh1 gw1
  have e2 : g1.setE ep (.exit .none) = .ok (g1.setP ep (.exit .none)) := Grid.setE_ok g1 ep _ hepc
  have hroom : EmptyRoom sh.h.toNat sh.w.toNat ep (g1.setP ep (.exit .none)) := by
    refine ⟨Grid.setP_WF g1 wf1 _ _, gh1, gw1, ?_⟩
    intro q hq
    rw [Grid.at_setP g1 wf1 ep _ hepc]
    by_cases hqe : q = ep
    · rw [if_pos hqe, if_pos hqe]
    · rw [if_neg hqe, if_neg hqe]; exact hat1 q (by simpa using hq)
  obtain ⟨ag, d2, hag, hin, hne, hheld, hfix⟩ :=
    emptyAgent_spec (g1.setP ep (.exit .none)) sh.h.toNat sh.w.toNat ep ra d1 (by omega) (by omega) hroom hepne
  refine ⟨⟨g1.setP ep (.exit .none), ag⟩, d2, ?_, ep, hepi, hroom, hin, hne, hheld, hfix, hepfix⟩
  simp only [resetEmpty, hcond, Bool.false_eq_true, if_false, e1, hexeq, e2, hag]

/-- … and `ValueError` otherwise, whatever the stream -/
theorem C13_empty_rejects (sh : Shape) (ra re : Bool) (d : DrawSt) (hv : ¬ (4 ≤ sh.h ∧ 4 ≤ sh.w)) :
    resetEmpty sh ra re d = .error .valueError := by
  have : (decide (sh.h < 4) || decide (sh.w < 4)) = true := by simp; omega
  simp [resetEmpty, this]

/-- consequences in the property's own words -/
theorem C13_empty_summary (sh : Shape) (ra re : Bool) (d : DrawSt) (hv : 4 ≤ sh.h ∧ 4 ≤ sh.w) :
    ∃ s d', resetEmpty sh ra re d = .ok (s, d') ∧
      s.grid.h = sh.h.toNat ∧ s.grid.w = sh.w.toNat ∧ s.grid.WF ∧
      (∀ q, s.grid.contains q = true → onBorder s.grid.h s.grid.w q → s.grid.at q = .wall) ∧
      s.grid.contains s.agent.pos = true ∧ s.agent.held = .noneObj ∧
      s.grid.at s.agent.pos = .floor ∧
      (∃ ep, s.grid.contains ep = true ∧ ∀ q, s.grid.contains q = true →
        ((s.grid.at q).kind = .exit ↔ q = ep)) := by
  obtain ⟨s, d', he, ep, hepi, ⟨wf, gh, gw, hat⟩, hai, hane, hheld, _, _⟩ := C13_empty_wf sh ra re d hv
  refine ⟨s, d', he, gh, gw, wf, ?_, hai.contains gh gw, hheld, ?_, ep, hepi.contains gh gw, ?_⟩
  · intro q hq hb
    rw [hat q hq]
    have : q ≠ ep := by
      intro h; subst h; rw [gh, gw] at hb; exact hepi.not_border hb
    rw [gh, gw] at hb
    simp [this, hb]
  · rw [hat _ (hai.contains gh gw)]
    simp [hane, hai.not_border]
  · intro q hq
    rw [hat q hq]
    by_cases hqe : q = ep
    · simp [hqe, Obj.kind]
    · by_cases hb : onBorder sh.h.toNat sh.w.toNat q <;> simp [hqe, hb, Obj.kind]

end GV

namespace GV

/-! ### dynamic_obstacles -/

/-- the cells where obstacles (or telepods) may be placed: floor cells other than the agent's -/
def vacant (s : State) : List Pos := (floorPositions s.grid).filter fun p => p != s.agent.pos

theorem vacant_nodup (s : State) : (vacant s).Nodup :=
  List.Pairwise.filter _ (Grid.find_nodup _ _)

theorem mem_vacant (s : State) (p : Pos) :
    p ∈ vacant s ↔ s.grid.contains p = true ∧ s.grid.at p = .floor ∧ p ≠ s.agent.pos := by
  simp only [vacant, floorPositions, List.mem_filter, Grid.mem_find, bne_iff_ne, ne_eq]
  constructor
  · rintro ⟨⟨h1, h2⟩, h3⟩; exact ⟨h1, isKind_floor _ h2, h3⟩
  · rintro ⟨h1, h2, h3⟩; exact ⟨⟨h1, by rw [h2]; rfl⟩, h3⟩

/-- picking `k` distinct vacant cells by index -/
theorem picked_positions (s : State) (idx : List Nat) (hnd : idx.Nodup) (hlt : ∀ i ∈ idx, i < (vacant s).length) :
    (idx.map fun i => (vacant s).getD i ⟨0, 0⟩).Nodup ∧
    ∀ p ∈ (idx.map fun i => (vacant s).getD i ⟨0, 0⟩), p ∈ vacant s := by
  constructor
  · rw [List.Nodup, List.pairwise_map]
    apply List.Pairwise.imp_of_mem _ hnd
    intro a b ha hb hab h
    apply hab
    have h1 := hlt a ha
    have h2 := hlt b hb
    simp only [List.getD, List.getElem?_eq_getElem h1, List.getElem?_eq_getElem h2, Option.getD_some] at h
    exact (List.getElem_inj (vacant_nodup s)).mp h
  · intro p hp
    obtain ⟨i, hi, rfl⟩ := List.mem_map.mp hp
    have := hlt i hi
    simp [List.getD, this]

/-- `dynamic_obstacles`: for shapes at least 4×4 the outcome is decided by the obstacle count — an
`empty` room (fixed exit) with `n` obstacles on distinct floor cells other than the agent's when
`0 ≤ n ≤ #vacant`, `ValueError` otherwise — for every stream -/
theorem C13_dynamic_obstacles (sh : Shape) (n : Int) (ra : Bool) (d : DrawSt) (hv : 4 ≤ sh.h ∧ 4 ≤ sh.w) :
    ∃ s0 d0, resetEmpty sh ra false d = .ok (s0, d0) ∧
      ((0 ≤ n ∧ n ≤ (vacant s0).length) →
        ∃ s d', ∃ obs : List Pos, resetDynamicObstacles sh n ra d = .ok (s, d') ∧ s.agent = s0.agent ∧
          obs.length = n.toNat ∧ obs.Nodup ∧ (∀ p ∈ obs, p ∈ vacant s0) ∧
          s.grid.WF ∧ s.grid.h = s0.grid.h ∧ s.grid.w = s0.grid.w ∧
          ∀ q, s.grid.at q = if q ∈ obs then .obstacle else s0.grid.at q) ∧
      (¬ (0 ≤ n ∧ n ≤ (vacant s0).length) → resetDynamicObstacles sh n ra d = .error .valueError) := by
  obtain ⟨s0, d0, he, ep, _, ⟨wf0, _, _, _⟩, _⟩ := C13_empty_wf sh ra false d hv
  refine ⟨s0, d0, he, ?_, ?_⟩
  · rintro ⟨hn0, hn1⟩
    obtain ⟨idx, d1, hc, hl, hnd, hlt⟩ := drawChoiceNR_some (vacant s0).length n.toNat (by omega) d0
    obtain ⟨hpn, hpm⟩ := picked_positions s0 idx hnd hlt
    obtain ⟨g', hg', wf', gh', gw', hat'⟩ := drawAll_spec s0.grid wf0
      (idx.map fun i => (vacant s0).getD i ⟨0, 0⟩) .obstacle
      (fun p hp => ((mem_vacant s0 p).mp (hpm p hp)).1)
    have hneg : ¬ n < 0 := by omega
    refine ⟨{ s0 with grid := g' }, d1, idx.map fun i => (vacant s0).getD i ⟨0, 0⟩, ?_, rfl,
      by simp [hl], hpn, hpm, wf', gh', gw', hat'⟩
    simp only [resetDynamicObstacles, he, hneg, decide_false, Bool.false_eq_true, if_false]
    change (match drawChoiceNR (vacant s0).length n.toNat d0 with
      | (none, _) => Except.error PyErr.valueError
      | (some idx, d) =>
        match drawAll s0.grid (idx.map fun i => (vacant s0).getD i ⟨0, 0⟩) .obstacle with
        | .error e => .error e
        | .ok g => .ok ({ s0 with grid := g }, d)) = _
    simp only [hc, hg']
  · intro hbad
    by_cases hneg : n < 0
    · simp [resetDynamicObstacles, he, hneg]
    · have hgt : (vacant s0).length < n.toNat := by omega
      have hnone := drawChoiceNR_none (vacant s0).length n.toNat hgt d0
      simp only [resetDynamicObstacles, he, hneg, decide_false, Bool.false_eq_true, if_false]
      change (match drawChoiceNR (vacant s0).length n.toNat d0 with
        | (none, _) => Except.error PyErr.valueError
        | (some idx, d) =>
          match drawAll s0.grid (idx.map fun i => (vacant s0).getD i ⟨0, 0⟩) .obstacle with
          | .error e => .error e
          | .ok g => .ok ({ s0 with grid := g }, d)) = _
      cases hx : drawChoiceNR (vacant s0).length n.toNat d0 with
      | mk o dd => rw [hx] at hnone; simp only at hnone; subst hnone; rfl

theorem C13_dynamic_obstacles_rejects_small (sh : Shape) (n : Int) (ra : Bool) (d : DrawSt)
    (hv : ¬ (4 ≤ sh.h ∧ 4 ≤ sh.w)) : resetDynamicObstacles sh n ra d = .error .valueError := by
  simp [resetDynamicObstacles, C13_empty_rejects sh ra false d hv]

/-! ### teleport -/

/-- `teleport`: an `empty` room (fixed exit, agent at (1,1) facing right or backward) with two red
telepods on distinct floor cells other than the agent's; at least 4×4 is needed -/
theorem C13_teleport_wf (sh : Shape) (d : DrawSt) (hv : 4 ≤ sh.h ∧ 4 ≤ sh.w) :
    ∃ s0 d0, resetEmpty sh false false ⟨[], []⟩ = .ok (s0, d0) ∧
      ∃ s d' t1 t2, resetTeleport sh d = .ok (s, d') ∧
        s.agent.pos = ⟨1, 1⟩ ∧ (s.agent.o = .R ∨ s.agent.o = .B) ∧ s.agent.held = .noneObj ∧
        t1 ≠ t2 ∧ t1 ∈ vacant s0 ∧ t2 ∈ vacant s0 ∧
        s.grid.WF ∧ s.grid.h = s0.grid.h ∧ s.grid.w = s0.grid.w ∧
        ∀ q, s.grid.at q = if q = t1 ∨ q = t2 then .telepod .red else s0.grid.at q := by
  obtain ⟨s0, d0, he, ep, hepi, ⟨wf0, gh0, gw0, hat0⟩, hai, hane, _, hfix, hepfix⟩ :=
    C13_empty_wf sh false false ⟨[], []⟩ hv
  obtain ⟨hpos, _⟩ := hfix rfl
  refine ⟨s0, d0, he, ?_⟩
  -- two vacant cells exist: among (1,2), (2,1), (2,2) at most one is the exit
  have hvac : ∀ p, Interior sh.h.toNat sh.w.toNat p → p ≠ ep → p ≠ ⟨1, 1⟩ → p ∈ vacant s0 := by
    intro p hpi hpe hp1
    rw [mem_vacant]
    have hpc := hpi.contains gh0 gw0
    refine ⟨hpc, ?_, by rw [hpos]; exact hp1⟩
    rw [hat0 p hpc]; simp [hpe, hpi.not_border]
  have hep := hepfix rfl
  have hlen : 2 ≤ (vacant s0).length := by
    have h12 : (⟨1, 2⟩ : Pos) ∈ vacant s0 := hvac _ (by unfold Interior; simp only; omega)
      (by rw [hep]; intro h; have := congrArg Pos.y h; simp only at this; omega)
      (by intro h; have := congrArg Pos.x h; simp at this)
    have h21 : (⟨2, 1⟩ : Pos) ∈ vacant s0 := hvac _ (by unfold Interior; simp only; omega)
      (by rw [hep]; intro h; have := congrArg Pos.x h; simp only at this; omega)
      (by intro h; have := congrArg Pos.y h; simp at this)
    have hsub : [(⟨1, 2⟩ : Pos), ⟨2, 1⟩] ⊆ vacant s0 := by
      intro x hx; simp only [List.mem_cons, List.not_mem_nil, or_false] at hx
      rcases hx with rfl | rfl <;> assumption
    have hnd : [(⟨1, 2⟩ : Pos), ⟨2, 1⟩].Nodup := by decide
    have := List.Nodup.length_le_of_subset hnd hsub
    simpa using this
  obtain ⟨k0, d1, hc0, _⟩ := drawChoice_pos 2 (by omega) d
  have hvaceq : ((floorPositions s0.grid).filter fun p => p != (⟨1, 1⟩ : Pos)) = vacant s0 := by
    simp only [vacant, hpos]
  obtain ⟨idx, d2, hc, hl, hnd, hlt⟩ := drawChoiceNR_some (vacant s0).length 2 hlen d1
  obtain ⟨hpn, hpm⟩ := picked_positions s0 idx hnd hlt
  obtain ⟨g', hg', wf', gh', gw', hat'⟩ := drawAll_spec s0.grid wf0
    (idx.map fun i => (vacant s0).getD i ⟨0, 0⟩) (.telepod .red)
    (fun p hp => ((mem_vacant s0 p).mp (hpm p hp)).1)
  obtain ⟨k1, d3, hc1, hk1⟩ := drawChoice_pos 2 (by omega) d2
  -- the two picked positions
  match idx, hl, hnd, hlt, hpn, hpm, hc, hg', hat' with
  | [i1, i2], _, _, _, hpn, hpm, hc, hg', hat' =>
    refine ⟨⟨g', ⟨⟨1, 1⟩, [Orient.R, Orient.B].getD k1 .R, .noneObj⟩⟩, d3,
      (vacant s0).getD i1 ⟨0, 0⟩, (vacant s0).getD i2 ⟨0, 0⟩, ?_, rfl, ?_, rfl, ?_, hpm _ (by simp),
      hpm _ (by simp), wf', gh', gw', ?_⟩
    · simp only [resetTeleport, he, hc0, hvaceq, hc, hg', hc1]
    · have : k1 = 0 ∨ k1 = 1 := by omega
      rcases this with rfl | rfl <;> simp
    · simp only [List.map_cons, List.map_nil, List.nodup_cons, List.mem_cons, List.not_mem_nil,
        or_false] at hpn
      exact hpn.1
    · intro q; rw [hat' q]; simp

theorem C13_teleport_rejects (sh : Shape) (d : DrawSt) (hv : ¬ (4 ≤ sh.h ∧ 4 ≤ sh.w)) :
    resetTeleport sh d = .error .valueError := by
  simp [resetTeleport, C13_empty_rejects sh false false ⟨[], []⟩ hv]

end GV

namespace GV

/-! ### keydoor -/

theorem mem_pyRange (a b v : Int) : v ∈ pyRange a b ↔ a ≤ v ∧ v < b := by
  rw [pyRange, mem_intRange]; omega

/-- `keydoor`: valid iff at least 4 rows and 5 columns.  Then, for every stream: an `empty` room with
a wall column at `xw ∈ [2, w-3]` holding one locked yellow door, one yellow key strictly left of
the wall, the agent strictly left of the wall (possibly on the key), the exit right of it. -/
theorem C13_keydoor_wf (sh : Shape) (d : DrawSt) (hv : 4 ≤ sh.h ∧ 5 ≤ sh.w) :
    ∃ s0 d0, resetEmpty sh false false ⟨[], []⟩ = .ok (s0, d0) ∧
      ∃ s d' xw yd yk xk ya xa, resetKeydoor sh d = .ok (s, d') ∧
        2 ≤ xw ∧ xw ≤ sh.w - 3 ∧ 1 ≤ yd ∧ yd ≤ sh.h - 2 ∧
        1 ≤ yk ∧ yk ≤ sh.h - 2 ∧ 1 ≤ xk ∧ xk < xw ∧
        s.agent.pos = ⟨ya, xa⟩ ∧ 1 ≤ ya ∧ ya ≤ sh.h - 2 ∧ 1 ≤ xa ∧ xa < xw ∧
        s.agent.held = .noneObj ∧
        s.grid.WF ∧ s.grid.h = s0.grid.h ∧ s.grid.w = s0.grid.w ∧
        ∀ q, s.grid.at q =
          if q = ⟨yk, xk⟩ then .key .yellow
          else if q = ⟨yd, xw⟩ then .door .locked .yellow
          else if q.x = xw ∧ 1 ≤ q.y ∧ q.y ≤ sh.h - 2 then .wall
          else s0.grid.at q := by
  obtain ⟨hh, hw⟩ := hv
  obtain ⟨s0, d0, he, ep, hepi, ⟨wf0, gh0, gw0, hat0⟩, _, _, _, _, _⟩ :=
    C13_empty_wf sh false false ⟨[], []⟩ ⟨hh, by omega⟩
  refine ⟨s0, d0, he, ?_⟩
  have hcond : (decide (sh.h < 3) || decide (sh.w < 5) || (sh.h == 3 && sh.w == 5)) = false := by
    have : (sh.h == 3) = false := by simp; omega
    simp [this]; omega
  obtain ⟨xw, d1, hx, hx1, hx2⟩ := drawIntegers_some 2 (sh.w - 2) (by omega) d
  have hlinec : ∀ p ∈ (pyRange 1 (sh.h - 1)).map (fun y => (⟨y, xw⟩ : Pos)), s0.grid.contains p = true := by
    intro p hp
    obtain ⟨y, hy, rfl⟩ := List.mem_map.mp hp
    rw [mem_pyRange] at hy
    rw [Grid.contains_iff, gh0, gw0]; simp only; omega
  obtain ⟨g1, hg1, wf1, gh1, gw1, hat1⟩ := drawAll_spec s0.grid wf0 _ .wall hlinec
  have hlen : 0 < ((pyRange 1 (sh.h - 1)).map (fun y => (⟨y, xw⟩ : Pos))).length := by
    simp only [List.length_map, pyRange, intRange, List.length_range]; omega
  obtain ⟨i, d2, hc, hi⟩ := drawChoice_pos _ hlen d1
  have hdoormem : ((pyRange 1 (sh.h - 1)).map (fun y => (⟨y, xw⟩ : Pos))).getD i ⟨0, 0⟩ ∈
      (pyRange 1 (sh.h - 1)).map (fun y => (⟨y, xw⟩ : Pos)) := by
    rw [List.getD_eq_getElem?_getD, List.getElem?_eq_getElem hi, Option.getD_some]
    exact List.getElem_mem hi
  obtain ⟨yd, hyd, hdoorpos⟩ := List.mem_map.mp hdoormem
  rw [mem_pyRange] at hyd
  have hdc : g1.contains ⟨yd, xw⟩ = true := by
    rw [Grid.contains_iff, gh1, gw1, gh0, gw0]; simp only; omega
  have hdoor := Grid.setE_ok g1 ⟨yd, xw⟩ (.door .locked .yellow) hdc
  obtain ⟨yk, d3, hyk, hyk1, hyk2⟩ := drawIntegers_some 1 (sh.h - 1) (by omega) d2
  obtain ⟨xk, d4, hxk, hxk1, hxk2⟩ := drawIntegers_some 1 xw (by omega) d3
  have hkc : (g1.setP ⟨yd, xw⟩ (.door .locked .yellow)).contains ⟨yk, xk⟩ = true := by
    rw [Grid.contains_iff]; simp only [Grid.setP_h, Grid.setP_w, gh1, gw1, gh0, gw0]; omega
  have hkey := Grid.setE_ok _ ⟨yk, xk⟩ (.key .yellow) hkc
  obtain ⟨ya, d5, hya, hya1, hya2⟩ := drawIntegers_some 1 (sh.h - 1) (by omega) d4
  obtain ⟨xa, d6, hxa, hxa1, hxa2⟩ := drawIntegers_some 1 xw (by omega) d5
  obtain ⟨k, d7, hk, _⟩ := drawChoice_pos 4 (by omega) d6
  refine ⟨⟨(g1.setP ⟨yd, xw⟩ (.door .locked .yellow)).setP ⟨yk, xk⟩ (.key .yellow),
    ⟨⟨ya, xa⟩, orientList.getD k .F, .noneObj⟩⟩, d7, xw, yd, yk, xk, ya, xa, ?_, hx1, by omega, hyd.1, by omega,
    hyk1, by omega, hxk1, hxk2, rfl, hya1, by omega, hxa1, hxa2, rfl,
    Grid.setP_WF _ (Grid.setP_WF _ wf1 _ _) _ _, gh1, gw1, ?_⟩
  · simp only [resetKeydoor, hcond, Bool.false_eq_true, if_false, he, hx, hg1, hc, ← hdoorpos, hdoor, hyk,
      hxk, hkey, hya, hxa, hk]
  · intro q
    rw [Grid.at_setP _ (Grid.setP_WF _ wf1 _ _) _ _ hkc, Grid.at_setP _ wf1 _ _ hdc, hat1 q]
    by_cases hq1 : q = ⟨yk, xk⟩
    · simp [hq1]
    · by_cases hq2 : q = ⟨yd, xw⟩
      · simp [hq1, hq2]
      · simp only [hq1, hq2, if_false]
        have : q ∈ (pyRange 1 (sh.h - 1)).map (fun y => (⟨y, xw⟩ : Pos)) ↔
            (q.x = xw ∧ 1 ≤ q.y ∧ q.y ≤ sh.h - 2) := by
          simp only [List.mem_map, mem_pyRange]
          constructor
          · rintro ⟨y, hy, rfl⟩; exact ⟨rfl, hy.1, by have := hy.2; simp only; omega⟩
          · rintro ⟨h1, h2, h3⟩; exact ⟨q.y, by omega, by rw [Pos.ext_iff']; simp [h1]⟩
        by_cases hm : q ∈ (pyRange 1 (sh.h - 1)).map (fun y => (⟨y, xw⟩ : Pos))
        · rw [if_pos hm, if_pos (this.mp hm)]
        · rw [if_neg hm, if_neg (fun h => hm (this.mpr h))]

theorem C13_keydoor_rejects (sh : Shape) (d : DrawSt) (hv : ¬ (4 ≤ sh.h ∧ 5 ≤ sh.w)) :
    resetKeydoor sh d = .error .valueError := by
  by_cases hcond : (decide (sh.h < 3) || decide (sh.w < 5) || (sh.h == 3 && sh.w == 5)) = true
  · simp [resetKeydoor, hcond]
  · have hc : (decide (sh.h < 3) || decide (sh.w < 5) || (sh.h == 3 && sh.w == 5)) = false := by
      simpa using hcond
    have hsmall : ¬ (4 ≤ sh.h ∧ 4 ≤ sh.w) := by
      simp only [Bool.or_eq_false_iff, decide_eq_false_iff_not, Bool.and_eq_false_iff] at hc
      omega
    simp [resetKeydoor, hc, C13_empty_rejects sh false false ⟨[], []⟩ hsmall]

end GV

namespace GV

/-! ### memory -/

/-- the floor cells of the `memory` layout: rows 1 and h-2 between the corner cells, and the
vertical corridor in the middle column -/
def memoryFloor (sh : Shape) (q : Pos) : Prop :=
  ((q.y = 1 ∨ q.y = sh.h - 2) ∧ 2 ≤ q.x ∧ q.x ≤ sh.w - 3) ∨ (q.x = sh.w / 2 ∧ 2 ≤ q.y ∧ q.y ≤ sh.h - 3)
instance (sh : Shape) (q : Pos) : Decidable (memoryFloor sh q) := by unfold memoryFloor; exact inferInstance

def MemoryValid (sh : Shape) (colors : List Color) : Prop :=
  5 ≤ sh.h ∧ 5 ≤ sh.w ∧ sh.w % 2 = 1 ∧ Color.none ∉ colors ∧ 2 ≤ colors.length

theorem mem_cartesian (ys xs : List Int) (p : Pos) : p ∈ cartesian ys xs ↔ p.y ∈ ys ∧ p.x ∈ xs := by
  simp only [cartesian, List.mem_flatMap, List.mem_map]
  constructor
  · rintro ⟨y, hy, x, hx, rfl⟩; exact ⟨hy, hx⟩
  · rintro ⟨hy, hx⟩; exact ⟨p.y, hy, p.x, hx, rfl⟩

theorem two_picks (l : List Nat) (hl : l.length = 2) : ∃ a b, l = [a, b] := by
  match l, hl with
  | [a, b], _ => exact ⟨a, b, rfl⟩

/-- `memory`: for valid parameters and every stream, the fixed T-shaped corridor layout with the
agent in the middle, two exits of *distinct* colours in the top corners and two beacons in the
bottom corners both carrying the colour of exactly one of the exits (the "good" one) -/
theorem C13_memory_wf (sh : Shape) (colors : List Color) (d : DrawSt) (hv : MemoryValid sh colors)
    (hnd : colors.Nodup) :
    ∃ s d' good bad xg xb, resetMemory sh colors d = .ok (s, d') ∧
      good ∈ colors ∧ bad ∈ colors ∧ good ≠ bad ∧
      ((xg = 1 ∧ xb = sh.w - 2) ∨ (xg = sh.w - 2 ∧ xb = 1)) ∧
      s.agent = ⟨⟨sh.h / 2, sh.w / 2⟩, .F, .noneObj⟩ ∧ memoryFloor sh s.agent.pos ∧
      s.grid.WF ∧ s.grid.h = sh.h.toNat ∧ s.grid.w = sh.w.toNat ∧
      ∀ q, s.grid.contains q = true → s.grid.at q =
        if q = ⟨1, xg⟩ then .exit good
        else if q = ⟨1, xb⟩ then .exit bad
        else if q = ⟨sh.h - 2, 1⟩ ∨ q = ⟨sh.h - 2, sh.w - 2⟩ then .beacon good
        else if memoryFloor sh q then .floor else .wall := by
  obtain ⟨hh, hw, hodd, hnone, hlen⟩ := hv
  have c1 : decide (sh.h < 5) = false := by simp; omega
  have c2 : (decide (sh.w < 5) || sh.w % 2 == 0) = false := by
    have : (sh.w % 2 == 0) = false := by simp; omega
    simp [this]; omega
  have c3 : colors.contains .none = false := by simpa using hnone
  have c4 : decide (colors.length < 2) = false := by simp; omega
  have hfm : ∀ q, q ∈ memoryFloorCells sh ↔ memoryFloor sh q := by
    intro q
    simp only [memoryFloorCells, List.mem_append, mem_cartesian, mem_pyRange, List.mem_cons, List.not_mem_nil,
      or_false, memoryFloor]
    constructor
    · rintro ((⟨h1, h2⟩ | ⟨h1, h2⟩) | ⟨h1, h2⟩)
      · left; exact ⟨Or.inl h1, by omega⟩
      · left; exact ⟨Or.inr h1, by omega⟩
      · right; exact ⟨h2, by omega⟩
    · rintro (⟨h1 | h1, h2⟩ | ⟨h1, h2⟩)
      · left; left; exact ⟨h1, by omega⟩
      · left; right; exact ⟨h1, by omega⟩
      · right; exact ⟨by omega, h1⟩
  have wfg0 : (Grid.fill sh.h.toNat sh.w.toNat .wall).WF := Grid.tab_WF _ _ _
  have hfc : ∀ p ∈ memoryFloorCells sh, (Grid.fill sh.h.toNat sh.w.toNat .wall).contains p = true := by
    intro p hp
    have := (hfm p).mp hp
    rw [Grid.contains_iff]; simp only [Grid.fill, Grid.tab_h, Grid.tab_w]
    unfold memoryFloor at this; omega
  obtain ⟨g1, hg1, wf1, gh1, gw1, hat1⟩ := drawAll_spec _ wfg0 (memoryFloorCells sh) .floor hfc
  simp only [Grid.fill, Grid.tab_h, Grid.tab_w] at gh1 gw1
  obtain ⟨ci, d1, hci, hcil, hcind, hcilt⟩ := drawChoiceNR_some colors.length 2 hlen d
  obtain ⟨i0, i1, rfl⟩ := two_picks ci hcil
  obtain ⟨xi, d2, hxi, hxil, hxind, hxilt⟩ := drawChoiceNR_some 2 2 (by omega) d1
  obtain ⟨j0, j1, rfl⟩ := two_picks xi hxil
  have hi0 := hcilt i0 (by simp)
  have hi1 := hcilt i1 (by simp)
  have hine : i0 ≠ i1 := by simpa using hcind
  have hj0 := hxilt j0 (by simp)
  have hj1 := hxilt j1 (by simp)
  have hjne : j0 ≠ j1 := by simpa using hxind
  -- the chosen colours and columns
  have egood : colors.getD i0 .none = colors[i0] := by simp [List.getD, hi0]
  have ebad : colors.getD i1 .none = colors[i1] := by simp [List.getD, hi1]
  have hgb : colors[i0] ≠ colors[i1] := fun h => hine ((List.getElem_inj hnd).mp h)
  have hcols : (([1, sh.w - 2] : List Int).getD j0 1 = 1 ∧ ([1, sh.w - 2] : List Int).getD j1 1 = sh.w - 2) ∨
      (([1, sh.w - 2] : List Int).getD j0 1 = sh.w - 2 ∧ ([1, sh.w - 2] : List Int).getD j1 1 = 1) := by
    have : (j0 = 0 ∧ j1 = 1) ∨ (j0 = 1 ∧ j1 = 0) := by omega
    rcases this with ⟨rfl, rfl⟩ | ⟨rfl, rfl⟩ <;> simp
  generalize hxg : ([1, sh.w - 2] : List Int).getD j0 1 = xg at hcols
  generalize hxb : ([1, sh.w - 2] : List Int).getD j1 1 = xb at hcols
  have hxgr : xg = 1 ∨ xg = sh.w - 2 := by rcases hcols with ⟨h, _⟩ | ⟨h, _⟩ <;> simp [h]
  have hxbr : xb = 1 ∨ xb = sh.w - 2 := by rcases hcols with ⟨_, h⟩ | ⟨_, h⟩ <;> simp [h]
  have hc : ∀ (g : Grid) (p : Pos), g.h = sh.h.toNat → g.w = sh.w.toNat → 0 ≤ p.y → p.y < sh.h →
      0 ≤ p.x → p.x < sh.w → g.contains p = true := by
    intro g p e1 e2 _ _ _ _; rw [Grid.contains_iff, e1, e2]; omega
  have k1 : g1.contains ⟨1, xg⟩ = true := hc _ _ gh1 gw1 (by simp) (by simp only; omega)
    (by simp only; omega) (by simp only; omega)
  have e1 := Grid.setE_ok g1 ⟨1, xg⟩ (.exit colors[i0]) k1
  have k2 : (g1.setP ⟨1, xg⟩ (.exit colors[i0])).contains ⟨1, xb⟩ = true := hc _ _ gh1 gw1 (by simp)
    (by simp only; omega) (by simp only; omega) (by simp only; omega)
  have e2 := Grid.setE_ok _ ⟨1, xb⟩ (.exit colors[i1]) k2
  have k3 : ((g1.setP ⟨1, xg⟩ (.exit colors[i0])).setP ⟨1, xb⟩ (.exit colors[i1])).contains ⟨sh.h - 2, 1⟩ = true :=
    hc _ _ gh1 gw1 (by simp only; omega) (by simp only; omega) (by simp) (by simp only; omega)
  have e3 := Grid.setE_ok _ ⟨sh.h - 2, 1⟩ (.beacon colors[i0]) k3
  have k4 : (((g1.setP ⟨1, xg⟩ (.exit colors[i0])).setP ⟨1, xb⟩ (.exit colors[i1])).setP ⟨sh.h - 2, 1⟩
      (.beacon colors[i0])).contains ⟨sh.h - 2, sh.w - 2⟩ = true :=
    hc _ _ gh1 gw1 (by simp only; omega) (by simp only; omega) (by simp only; omega) (by simp only; omega)
  have e4 := Grid.setE_ok _ ⟨sh.h - 2, sh.w - 2⟩ (.beacon colors[i0]) k4
  have w2 := Grid.setP_WF g1 wf1 ⟨1, xg⟩ (.exit colors[i0])
  have w3 := Grid.setP_WF _ w2 ⟨1, xb⟩ (.exit colors[i1])
  have w4 := Grid.setP_WF _ w3 ⟨sh.h - 2, 1⟩ (.beacon colors[i0])
  have w5 := Grid.setP_WF _ w4 ⟨sh.h - 2, sh.w - 2⟩ (.beacon colors[i0])
  refine ⟨⟨(((g1.setP ⟨1, xg⟩ (.exit colors[i0])).setP ⟨1, xb⟩ (.exit colors[i1])).setP ⟨sh.h - 2, 1⟩
      (.beacon colors[i0])).setP ⟨sh.h - 2, sh.w - 2⟩ (.beacon colors[i0]),
      ⟨⟨sh.h / 2, sh.w / 2⟩, .F, .noneObj⟩⟩, d2, colors[i0], colors[i1], xg, xb, ?_,
    List.getElem_mem hi0, List.getElem_mem hi1, hgb, hcols, rfl, ?_, w5, gh1, gw1, ?_⟩
  · have n1 : ¬ sh.h < 5 := by omega
    have n4 : ¬ colors.length < 2 := by omega
    simp only [resetMemory, c1, c2, c3, c4, n1, n4, Bool.false_eq_true, if_false]
    simp only [hg1, hci, hxi, List.getD_cons_zero, List.getD_cons_succ, egood, ebad, hxg, hxb, e1, e2, e3, e4]
  · right; exact ⟨rfl, by simp only; omega, by simp only; omega⟩
  · intro q hq
    show Grid.at (Grid.setP _ _ _) q = _
    rw [Grid.at_setP _ w4 _ _ k4, Grid.at_setP _ w3 _ _ k3, Grid.at_setP _ w2 _ _ k2,
      Grid.at_setP _ wf1 _ _ k1, hat1 q, Grid.at_fill]
    have hq0 : (Grid.fill sh.h.toNat sh.w.toNat .wall).contains q = true := by
      simp only [Grid.contains, Grid.fill, Grid.tab_h, Grid.tab_w] at hq ⊢
      simpa [gh1, gw1] using hq
    simp only [hq0, if_true]
    by_cases q1 : q = ⟨1, xg⟩
    · -- the good exit; it is none of the later cells
      subst q1
      have n2 : (⟨1, xg⟩ : Pos) ≠ ⟨1, xb⟩ := by
        intro h; have := congrArg Pos.x h; simp only at this; rcases hcols with ⟨a, b⟩ | ⟨a, b⟩ <;> omega
      have n3 : (⟨1, xg⟩ : Pos) ≠ ⟨sh.h - 2, 1⟩ := by
        intro h; have := congrArg Pos.y h; simp only at this; omega
      have n4 : (⟨1, xg⟩ : Pos) ≠ ⟨sh.h - 2, sh.w - 2⟩ := by
        intro h; have := congrArg Pos.y h; simp only at this; omega
      simp [n2, n3, n4]
    · by_cases q2 : q = ⟨1, xb⟩
      · subst q2
        have n3 : (⟨1, xb⟩ : Pos) ≠ ⟨sh.h - 2, 1⟩ := by
          intro h; have := congrArg Pos.y h; simp only at this; omega
        have n4 : (⟨1, xb⟩ : Pos) ≠ ⟨sh.h - 2, sh.w - 2⟩ := by
          intro h; have := congrArg Pos.y h; simp only at this; omega
        simp [q1, n3, n4]
      · by_cases q3 : q = ⟨sh.h - 2, 1⟩
        · subst q3
          have n4 : (⟨sh.h - 2, 1⟩ : Pos) ≠ ⟨sh.h - 2, sh.w - 2⟩ := by
            intro h; have := congrArg Pos.x h; simp only at this; omega
          simp [q1, q2, n4]
        · by_cases q4 : q = ⟨sh.h - 2, sh.w - 2⟩
          · subst q4
            have hy : ¬ (sh.h - 2 = (1 : Int)) := by omega
            simp [Pos.ext_iff', hy]
          · simp only [q1, q2, q3, q4, if_false, or_self]
            by_cases hm : q ∈ memoryFloorCells sh
            · rw [if_pos hm, if_pos ((hfm q).mp hm)]
            · rw [if_neg hm, if_neg (fun h => hm ((hfm q).mpr h))]

theorem C13_memory_rejects (sh : Shape) (colors : List Color) (d : DrawSt) (hv : ¬ MemoryValid sh colors) :
    resetMemory sh colors d = .error .valueError := by
  unfold MemoryValid at hv
  unfold resetMemory
  by_cases c1 : sh.h < 5
  · simp [c1]
  · by_cases c2 : sh.w < 5 ∨ sh.w % 2 = 0
    · have : (decide (sh.w < 5) || sh.w % 2 == 0) = true := by
        rcases c2 with h | h
        · simp [h]
        · simp [h]
      simp [c1, this]
    · by_cases c3 : Color.none ∈ colors
      · have h2 : (decide (sh.w < 5) || sh.w % 2 == 0) = false := by
          simp only [Bool.or_eq_false_iff, decide_eq_false_iff_not, beq_eq_false_iff_ne, ne_eq]
          omega
        simp [c1, h2, c3]
      · by_cases c4 : colors.length < 2
        · have h2 : (decide (sh.w < 5) || sh.w % 2 == 0) = false := by
            simp only [Bool.or_eq_false_iff, decide_eq_false_iff_not, beq_eq_false_iff_ne, ne_eq]
            omega
          simp [c1, h2, c3, c4]
        · exfalso; apply hv
          refine ⟨by omega, by omega, by omega, c3, by omega⟩

end GV
