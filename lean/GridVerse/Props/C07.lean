/-
  C07 — Observations are egocentric: invariant under rotating the whole world.

  "Rotating the world - grid and agent pose together - by any quarter turn yields an equal
  observation for every built-in deterministic observation function and every view area."

  `rotWorld k s` rotates the grid with the library's own `grid * k` and moves the agent with it:
  its cell goes where the rotation sends it (`rho`), its heading becomes `(-k) * heading`.  The
  lemmas `C07_rot_get`, `C07_rot_front` justify that this *is* "the same world, rotated" — the
  definition is not tuned to the theorem.
-/
import GridVerse.Lemmas.Premask
import GridVerse.Props.C18
import GridVerse.Agree.Orient
import GridVerse.Agree.GridRot
set_option linter.unusedSimpArgs false
namespace GV

/-- where the cell at `p` of `g` ends up in `g * k` -/
def rho (k : Orient) (g : Grid) (p : Pos) : Pos :=
  match k with
  | .F => p
  | .R => ⟨(g.w : Int) - 1 - p.x, p.y⟩
  | .B => ⟨(g.h : Int) - 1 - p.y, (g.w : Int) - 1 - p.x⟩
  | .L => ⟨p.x, (g.h : Int) - 1 - p.y⟩

/-- the world rotated by `k` -/
def rotWorld (k : Orient) (s : State) : State :=
  ⟨Grid.rot k s.grid, ⟨rho k s.grid s.agent.pos, k.neg.mul s.agent.o, s.agent.held⟩⟩

/-- the rotated grid holds at `rho p` what the grid held at `p` — inside and outside alike -/
theorem C07_rot_get (k : Orient) (g : Grid) (p : Pos) : (Grid.rot k g).at (rho k g p) = g.at p := by
  cases k
  · rfl
  · -- B
    by_cases hc : g.contains p = true
    · have hc2 := (Grid.contains_iff g p).mp hc
      have hc' : (Grid.rot .B g).contains (rho .B g p) = true := by
        rw [Grid.contains_iff]; simp only [Grid.rot, Grid.tab_h, Grid.tab_w, rho]; omega
      rw [Grid.at_of_contains _ _ hc', Grid.at_of_contains _ _ hc]
      simp only [Grid.rot, rho]
      rw [Grid.cell_tab _ _ _ _ _ (by omega) (by omega)]
      congr 1 <;> omega
    · have hc0 : g.contains p = false := by simpa using hc
      have hc' : (Grid.rot .B g).contains (rho .B g p) = false := by
        rw [Bool.eq_false_iff]; intro h
        rw [Grid.contains_iff] at h; simp only [Grid.rot, Grid.tab_h, Grid.tab_w, rho] at h
        apply hc; rw [Grid.contains_iff]; omega
      rw [Grid.at_of_not_contains _ _ hc', Grid.at_of_not_contains _ _ hc0]
  · -- L
    by_cases hc : g.contains p = true
    · have hc2 := (Grid.contains_iff g p).mp hc
      have hc' : (Grid.rot .L g).contains (rho .L g p) = true := by
        rw [Grid.contains_iff]; simp only [Grid.rot, Grid.tab_h, Grid.tab_w, rho]; omega
      rw [Grid.at_of_contains _ _ hc', Grid.at_of_contains _ _ hc]
      simp only [Grid.rot, rho]
      rw [Grid.cell_tab _ _ _ _ _ (by omega) (by omega)]
      congr 1; omega
    · have hc0 : g.contains p = false := by simpa using hc
      have hc' : (Grid.rot .L g).contains (rho .L g p) = false := by
        rw [Bool.eq_false_iff]; intro h
        rw [Grid.contains_iff] at h; simp only [Grid.rot, Grid.tab_h, Grid.tab_w, rho] at h
        apply hc; rw [Grid.contains_iff]; omega
      rw [Grid.at_of_not_contains _ _ hc', Grid.at_of_not_contains _ _ hc0]
  · -- R
    by_cases hc : g.contains p = true
    · have hc2 := (Grid.contains_iff g p).mp hc
      have hc' : (Grid.rot .R g).contains (rho .R g p) = true := by
        rw [Grid.contains_iff]; simp only [Grid.rot, Grid.tab_h, Grid.tab_w, rho]; omega
      rw [Grid.at_of_contains _ _ hc', Grid.at_of_contains _ _ hc]
      simp only [Grid.rot, rho]
      rw [Grid.cell_tab _ _ _ _ _ (by omega) (by omega)]
      congr 1; omega
    · have hc0 : g.contains p = false := by simpa using hc
      have hc' : (Grid.rot .R g).contains (rho .R g p) = false := by
        rw [Bool.eq_false_iff]; intro h
        rw [Grid.contains_iff] at h; simp only [Grid.rot, Grid.tab_h, Grid.tab_w, rho] at h
        apply hc; rw [Grid.contains_iff]; omega
      rw [Grid.at_of_not_contains _ _ hc', Grid.at_of_not_contains _ _ hc0]

/-- `rho` is the rigid motion: it commutes with the agent's pose transform -/
theorem C07_act_rho (k : Orient) (g : Grid) (pos : Pos) (o : Orient) (q : Pos) :
    Transform.act ⟨rho k g pos, k.neg.mul o⟩ q = rho k g (Transform.act ⟨pos, o⟩ q) := by
  cases k <;> cases o <;> simp [Transform.act, rho, Orient.neg, Orient.mul, Orient.act, Pos.add] <;> omega

/-- the rotated agent faces the rotated front cell (and so on for every relative position) -/
theorem C07_rot_front (k : Orient) (s : State) :
    (rotWorld k s).agent.front = rho k s.grid s.agent.front ∧
    (rotWorld k s).agent.pos = rho k s.grid s.agent.pos ∧
    (rotWorld k s).grid.at (rotWorld k s).agent.front = s.grid.at s.agent.front := by
  refine ⟨C07_act_rho k s.grid s.agent.pos s.agent.o _, rfl, ?_⟩
  have : (rotWorld k s).agent.front = rho k s.grid s.agent.front :=
    C07_act_rho k s.grid s.agent.pos s.agent.o _
  rw [this]
  exact C07_rot_get k s.grid _

/-- rotating back restores the world -/
theorem C07_rot_back (k : Orient) (s : State) (hw : s.grid.WF)
    (hc : s.grid.contains s.agent.pos = true) : rotWorld k.neg (rotWorld k s) = s := by
  obtain ⟨g, ⟨p, o, hd⟩⟩ := s
  simp only [rotWorld]
  have hg := Grid.rot_neg_rot k g hw
  rw [Grid.contains_iff] at hc
  simp only at hc hw
  congr 1
  congr 1
  · cases k <;> simp [rho, Orient.neg, Grid.rot, Pos.ext_iff'] <;> omega
  · cases k <;> cases o <;> rfl

/-- the pre-mask views of the world and of the rotated world coincide -/
theorem C07_premask (k : Orient) (s : State) (a : Area) (ha : a.WF) :
    premask (rotWorld k s) a = premask s a := by
  obtain ⟨h1, w1⟩ := premask_shape (rotWorld k s) a ha
  obtain ⟨h2, w2⟩ := premask_shape s a ha
  apply Grid.ext_cells _ _ (premask_WF _ _) (premask_WF _ _) (by rw [h1, h2]) (by rw [w1, w2])
  intro i j hi hj
  rw [h1] at hi; rw [w1] at hj
  rw [premask_cell _ a ha i j hi hj, premask_cell _ a ha i j hi hj]
  have : (rotWorld k s).agent.transform.act ⟨a.ymin + i, a.xmin + j⟩ =
      rho k s.grid (s.agent.transform.act ⟨a.ymin + i, a.xmin + j⟩) :=
    C07_act_rho k s.grid s.agent.pos s.agent.o _
  rw [this]
  exact C07_rot_get k s.grid _

/-- C07: for every quarter turn, state, view area and visibility function (flood fill, ray
tracing with whatever fan, fully transparent, …) the observation of the rotated world equals the
observation of the world -/
theorem C07_invariant (V : Grid → Pos → Except PyErr Mask) (k : Orient) (s : State) (a : Area)
    (ha : a.WF) : fromVisibility V (rotWorld k s) a = fromVisibility V s a := by
  unfold fromVisibility
  rw [C07_premask k s a ha]
  rfl

/-! ### non-vacuity: a non-square world and an asymmetric view -/
example :
    let s : State := ⟨⟨2, 3, [[.wall, .key .red, .floor], [.exit .none, .floor, .obstacle]]⟩,
      ⟨⟨1, 1⟩, .L, .noneObj⟩⟩
    (rotWorld .R s).grid = ⟨3, 2, [[.floor, .obstacle], [.key .red, .floor], [.wall, .exit .none]]⟩ ∧
    (rotWorld .R s).agent.pos = ⟨1, 1⟩ ∧ (rotWorld .R s).agent.o = .B ∧
    premask (rotWorld .R s) ⟨-1, 0, -1, 2⟩ = premask s ⟨-1, 0, -1, 2⟩ := by decide

end GV
