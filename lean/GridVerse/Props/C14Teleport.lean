/-
  C14 for the `teleport` layout (continuation of Props/C14.lean).
-/
import GridVerse.Lemmas.Teleport
import GridVerse.Props.C14
set_option linter.unusedSimpArgs false
namespace GV

/-- what the teleport room holds at `q` -/
def tpCell (sh : Shape) (t1 t2 q : Pos) : Obj :=
  if q = t1 ∨ q = t2 then .telepod .red
  else if q = ⟨sh.h - 2, sh.w - 2⟩ then .exit .none
  else if onBorder sh.h.toNat sh.w.toNat q then .wall else .floor

/-- a floor cell of the room that is neither the start nor the exit -/
def TPSpot (sh : Shape) (t : Pos) : Prop :=
  Interior sh.h.toNat sh.w.toNat t ∧ t ≠ ⟨sh.h - 2, sh.w - 2⟩ ∧ t ≠ ⟨1, 1⟩

structure TPRoom (sh : Shape) (t1 t2 : Pos) (g : Grid) : Prop where
  wf : g.WF
  gh : g.h = sh.h.toNat
  gw : g.w = sh.w.toNat
  cell : ∀ q, g.contains q = true → g.at q = tpCell sh t1 t2 q
  s1 : TPSpot sh t1
  s2 : TPSpot sh t2
  ne : t1 ≠ t2

theorem TPRoom.symm {sh : Shape} {t1 t2 : Pos} {g : Grid} (r : TPRoom sh t1 t2 g) : TPRoom sh t2 t1 g :=
  ⟨r.wf, r.gh, r.gw, fun q hq => by rw [r.cell q hq]; unfold tpCell; simp only [or_comm], r.s2, r.s1, r.ne.symm⟩

/-- the reset's grid is the teleport room -/
theorem teleport_room (sh : Shape) (d : DrawSt) (hv : 4 ≤ sh.h ∧ 4 ≤ sh.w) :
    ∃ s d' t1 t2, resetTeleport sh d = .ok (s, d') ∧ s.agent.pos = ⟨1, 1⟩ ∧ TPRoom sh t1 t2 s.grid := by
  obtain ⟨s0, d0, he0, s, d', t1, t2, he, hpos, _, _, hne, hv1, hv2, wf, gh, gw, hat⟩ := C13_teleport_wf sh d hv
  obtain ⟨s0', d0', he0', ep, _, ⟨wf0, gh0, gw0, hat0⟩, _, _, _, hfix, hepfix⟩ :=
    C13_empty_wf sh false false ⟨[], []⟩ hv
  rw [he0] at he0'
  obtain ⟨rfl, rfl⟩ : s0 = s0' ∧ d0 = d0' := by
    have := Except.ok.inj he0'
    exact ⟨congrArg Prod.fst this, congrArg Prod.snd this⟩
  have hep := hepfix rfl
  have hp0 := (hfix rfl).1
  have spot : ∀ t, t ∈ vacant s0 → TPSpot sh t := by
    intro t ht
    rw [mem_vacant] at ht
    obtain ⟨hc, hk, hnp⟩ := ht
    rw [hat0 t hc, hep] at hk
    rw [hp0] at hnp
    by_cases c1 : t = ⟨sh.h - 2, sh.w - 2⟩
    · simp [c1, Obj.isKind, Obj.kind] at hk
    · by_cases c2 : onBorder sh.h.toNat sh.w.toNat t
      · simp [c1, c2, Obj.isKind, Obj.kind] at hk
      · refine ⟨?_, c1, hnp⟩
        rw [Grid.contains_iff, gh0, gw0] at hc
        unfold onBorder at c2
        unfold Interior
        omega
  refine ⟨s, d', t1, t2, he, hpos, wf, by rw [gh, gh0], by rw [gw, gw0], ?_, spot t1 hv1, spot t2 hv2, hne⟩
  intro q hq
  have hq0 : s0.grid.contains q = true := by simpa [Grid.contains, gh, gw] using hq
  rw [hat q, hat0 q hq0, hep]
  rfl

theorem onPathA_iff (h w : Int) (q : Pos) :
    onPathA h w q = true ↔ (q.x = 1 ∧ 1 ≤ q.y ∧ q.y ≤ h - 2) ∨ (q.y = h - 2 ∧ 1 ≤ q.x ∧ q.x ≤ w - 2) := by
  simp [onPathA, and_assoc]

theorem onPathB_iff (h w : Int) (q : Pos) :
    onPathB h w q = true ↔ (q.y = 1 ∧ 1 ≤ q.x ∧ q.x ≤ w - 2) ∨ (q.x = w - 2 ∧ 1 ≤ q.y ∧ q.y ≤ h - 2) := by
  simp [onPathB, and_assoc]

/-- an interior cell that is not a telepod can be stepped on (the exit being the goal) -/
theorem tp_pass {sh : Shape} {t1 t2 : Pos} {s : State} (r : TPRoom sh t1 t2 s.grid) (c : Pos)
    (hc : Interior sh.h.toNat sh.w.toNat c) (h1 : c ≠ t1) (h2 : c ≠ t2) :
    Pass [.turnAgent, .teleport] (stopOf .reachExit) goalExit s c := by
  have hin : s.grid.contains c = true := hc.contains r.gh r.gw
  have hat := r.cell c hin
  have hnt : ¬ (c = t1 ∨ c = t2) := by rintro (h | h) <;> contradiction
  unfold tpCell at hat
  rw [if_neg hnt] at hat
  have hq : RestQuiet [.turnAgent, .teleport] (withPos s c) := by
    refine ⟨by decide, fun _ => ⟨r.wf, hin, ?_⟩, fun h => absurd h (by decide)⟩
    simp only [withPos_grid, withPos_pos, hat]
    split
    · rfl
    · rw [if_neg hc.not_border]; rfl
  by_cases he : c = ⟨sh.h - 2, sh.w - 2⟩
  · rw [if_pos he] at hat
    refine ⟨hin, by rw [hat]; rfl, hq, Or.inl ?_⟩
    simp only [goalExit, withPos_grid, withPos_pos, hin, hat, Bool.true_and]
    rfl
  · rw [if_neg he, if_neg hc.not_border] at hat
    refine ⟨hin, by rw [hat]; rfl, hq, Or.inr ?_⟩
    intro s0 a _ _
    apply stop_false_of_not_exit s0 a (withPos s c) r.wf hin
    simp only [withPos_grid, withPos_pos, hat]
    rfl

theorem tp_find {sh : Shape} {t1 t2 : Pos} {g : Grid} (r : TPRoom sh t1 t2 g) (q : Pos) :
    q ∈ g.find (fun o => o.isKind .telepod) ↔ q = t1 ∨ q = t2 := by
  rw [Grid.mem_find]
  constructor
  · rintro ⟨hc, hk⟩
    rw [r.cell q hc] at hk
    unfold tpCell at hk
    by_cases h : q = t1 ∨ q = t2
    · exact h
    · rw [if_neg h] at hk
      split at hk
      · simp [Obj.isKind, Obj.kind] at hk
      · split at hk <;> simp [Obj.isKind, Obj.kind] at hk
  · intro h
    have hc : g.contains q = true := by
      rcases h with rfl | rfl
      · exact r.s1.1.contains r.gh r.gw
      · exact r.s2.1.contains r.gh r.gw
    refine ⟨hc, ?_⟩
    rw [r.cell q hc]; unfold tpCell; rw [if_pos h]; rfl

theorem tp_exit {sh : Shape} {t1 t2 : Pos} {g : Grid} (r : TPRoom sh t1 t2 g) (hh : 4 ≤ sh.h) (hw : 4 ≤ sh.w) :
    firstExit g = ⟨sh.h - 2, sh.w - 2⟩ := by
  have hi : Interior sh.h.toNat sh.w.toNat ⟨sh.h - 2, sh.w - 2⟩ := by unfold Interior; simp only; omega
  have hin := hi.contains r.gh r.gw
  have hnt : ¬ ((⟨sh.h - 2, sh.w - 2⟩ : Pos) = t1 ∨ (⟨sh.h - 2, sh.w - 2⟩ : Pos) = t2) := by
    rintro (h | h)
    · exact r.s1.2.1 h.symm
    · exact r.s2.2.1 h.symm
  unfold firstExit
  apply head_of_all_eq'
  · rw [Grid.mem_find]; refine ⟨hin, ?_⟩
    rw [r.cell _ hin]; unfold tpCell; rw [if_neg hnt, if_pos rfl]; rfl
  · intro q hq
    rw [Grid.mem_find] at hq
    obtain ⟨hc, hk⟩ := hq
    rw [r.cell q hc] at hk
    unfold tpCell at hk
    split at hk
    · simp [Obj.isKind, Obj.kind] at hk
    · split at hk
      · assumption
      · split at hk <;> simp [Obj.isKind, Obj.kind] at hk

/-- the way `A` (or `B`) without telepods on it -/
theorem teleport_clear_A {sh : Shape} {t1 t2 : Pos} {s : State} (r : TPRoom sh t1 t2 s.grid)
    (hh : 4 ≤ sh.h) (hw : 4 ≤ sh.w) (hpos : s.agent.pos = ⟨1, 1⟩)
    (h1 : onPathA sh.h sh.w t1 = false) (h2 : onPathA sh.h sh.w t2 = false) (d0 : DrawSt) :
    checkPlan tpChain (stopOf .reachExit) goalExit s (lPlan s.agent.o s.agent.pos ⟨sh.h - 2, sh.w - 2⟩) d0 = true := by
  have key := lplan_then [.turnAgent, .teleport] (stopOf .reachExit) goalExit s ⟨sh.h - 2, sh.w - 2⟩ [] d0
  rw [List.append_nil] at key
  have offA : ∀ c, onPathA sh.h sh.w c = true → c ≠ t1 ∧ c ≠ t2 := by
    intro c hc
    constructor <;> (intro h; subst h; simp [hc] at h1 h2)
  apply key
  · intro y hy
    rw [hpos] at hy ⊢
    unfold Btw at hy
    simp only at hy ⊢
    have hA : onPathA sh.h sh.w ⟨y, 1⟩ = true := by rw [onPathA_iff]; left; exact ⟨rfl, by simp only; omega, by simp only; omega⟩
    exact tp_pass r _ (by unfold Interior; simp only; omega) (offA _ hA).1 (offA _ hA).2
  · intro x hx
    rw [hpos] at hx
    unfold Btw at hx
    simp only at hx
    have hA : onPathA sh.h sh.w ⟨sh.h - 2, x⟩ = true := by rw [onPathA_iff]; right; exact ⟨rfl, by simp only; omega, by simp only; omega⟩
    exact tp_pass r _ (by unfold Interior; simp only; omega) (offA _ hA).1 (offA _ hA).2
  · have hi : Interior sh.h.toNat sh.w.toNat ⟨sh.h - 2, sh.w - 2⟩ := by unfold Interior; simp only; omega
    have hA : onPathA sh.h sh.w ⟨sh.h - 2, sh.w - 2⟩ = true := by rw [onPathA_iff]; right; exact ⟨rfl, by simp only; omega, by simp only; omega⟩
    have p := tp_pass (s := s) r _ hi (offA _ hA).1 (offA _ hA).2
    rcases p.go with h | h
    · simp only [checkPlan]; exact h
    · have hin := hi.contains r.gh r.gw
      have hat := r.cell _ hin
      have hnt : ¬ ((⟨sh.h - 2, sh.w - 2⟩ : Pos) = t1 ∨ (⟨sh.h - 2, sh.w - 2⟩ : Pos) = t2) := by
        rintro (h | h)
        · exact (offA _ hA).1 h
        · exact (offA _ hA).2 h
      unfold tpCell at hat
      rw [if_neg hnt, if_pos rfl] at hat
      simp only [checkPlan, goalExit, withPos_grid, withPos_pos, hin, hat, Bool.true_and]
      rfl

theorem teleport_clear_B {sh : Shape} {t1 t2 : Pos} {s : State} (r : TPRoom sh t1 t2 s.grid)
    (hh : 4 ≤ sh.h) (hw : 4 ≤ sh.w) (hpos : s.agent.pos = ⟨1, 1⟩)
    (h1 : onPathB sh.h sh.w t1 = false) (h2 : onPathB sh.h sh.w t2 = false) (d0 : DrawSt) :
    checkPlan tpChain (stopOf .reachExit) goalExit s (lPlanH s.agent.o s.agent.pos ⟨sh.h - 2, sh.w - 2⟩) d0 = true := by
  have key := lplanH_then [.turnAgent, .teleport] (stopOf .reachExit) goalExit s ⟨sh.h - 2, sh.w - 2⟩ [] d0
  rw [List.append_nil] at key
  have offB : ∀ c, onPathB sh.h sh.w c = true → c ≠ t1 ∧ c ≠ t2 := by
    intro c hc
    constructor <;> (intro h; subst h; simp [hc] at h1 h2)
  apply key
  · intro x hx
    rw [hpos] at hx ⊢
    unfold Btw at hx
    simp only at hx ⊢
    have hB : onPathB sh.h sh.w ⟨1, x⟩ = true := by
      rw [onPathB_iff]; left; exact ⟨rfl, by simp only; omega, by simp only; omega⟩
    exact tp_pass r _ (by unfold Interior; simp only; omega) (offB _ hB).1 (offB _ hB).2
  · intro y hy
    rw [hpos] at hy
    unfold Btw at hy
    simp only at hy
    have hB : onPathB sh.h sh.w ⟨y, sh.w - 2⟩ = true := by
      rw [onPathB_iff]; right; exact ⟨rfl, by simp only; omega, by simp only; omega⟩
    exact tp_pass r _ (by unfold Interior; simp only; omega) (offB _ hB).1 (offB _ hB).2
  · have hi : Interior sh.h.toNat sh.w.toNat ⟨sh.h - 2, sh.w - 2⟩ := by unfold Interior; simp only; omega
    have hin := hi.contains r.gh r.gw
    have hat := r.cell _ hin
    have hnt : ¬ ((⟨sh.h - 2, sh.w - 2⟩ : Pos) = t1 ∨ (⟨sh.h - 2, sh.w - 2⟩ : Pos) = t2) := by
      rintro (h | h)
      · exact r.s1.2.1 h.symm
      · exact r.s2.2.1 h.symm
    unfold tpCell at hat
    rw [if_neg hnt, if_pos rfl] at hat
    simp only [checkPlan, goalExit, withPos_grid, withPos_pos, hin, hat, Bool.true_and]
    rfl

/-- out of the telepod on `B`: along `B` to the exit -/
theorem teleport_finish_B {sh : Shape} {tA tB : Pos} {s : State} (r : TPRoom sh tA tB s.grid)
    (hh : 4 ≤ sh.h) (hw : 4 ≤ sh.w) (hA : onPathB sh.h sh.w tA = false) (hB : onPathB sh.h sh.w tB = true)
    (o : Orient) (d0 : DrawSt) :
    checkPlan tpChain (stopOf .reachExit) goalExit (withO (withPos s tB) o)
      (lPlanH o tB ⟨sh.h - 2, sh.w - 2⟩ ++ []) d0 = true := by
  have key := lplanH_then [.turnAgent, .teleport] (stopOf .reachExit) goalExit (withO (withPos s tB) o)
    ⟨sh.h - 2, sh.w - 2⟩ [] d0
  simp only [withO_o, withO_pos, withPos_pos] at key
  have passB : ∀ c, onPathB sh.h sh.w c = true → c ≠ tB → Interior sh.h.toNat sh.w.toNat c →
      Pass [.turnAgent, .teleport] (stopOf .reachExit) goalExit (withO (withPos s tB) o) c := by
    intro c hc hne hi
    have hneA : c ≠ tA := by intro h; subst h; simp [hc] at hA
    exact tp_pass (s := withO (withPos s tB) o) r c hi hneA hne
  rw [onPathB_iff] at hB
  apply key
  · intro x hx
    unfold Btw at hx
    rcases hB with ⟨b1, b2, b3⟩ | ⟨b1, b2, b3⟩
    · apply passB
      · rw [onPathB_iff]; left; exact ⟨b1, by simp only; omega, by simp only; omega⟩
      · rw [Ne, Pos.ext_iff']; simp only; omega
      · unfold Interior; simp only; omega
    · omega
  · intro y hy
    unfold Btw at hy
    have hby : 1 ≤ tB.y ∧ tB.y ≤ sh.h - 2 := by rcases hB with ⟨b1, b2, b3⟩ | ⟨b1, b2, b3⟩ <;> omega
    apply passB
    · rw [onPathB_iff]; right; exact ⟨rfl, by simp only; omega, by simp only; omega⟩
    · rw [Ne, Pos.ext_iff']; simp only; omega
    · unfold Interior; simp only; omega
  · have hi : Interior sh.h.toNat sh.w.toNat ⟨sh.h - 2, sh.w - 2⟩ := by unfold Interior; simp only; omega
    have hin := hi.contains r.gh r.gw
    have hat := r.cell _ hin
    have hnt : ¬ ((⟨sh.h - 2, sh.w - 2⟩ : Pos) = tA ∨ (⟨sh.h - 2, sh.w - 2⟩ : Pos) = tB) := by
      rintro (h | h)
      · exact r.s1.2.1 h.symm
      · exact r.s2.2.1 h.symm
    unfold tpCell at hat
    rw [if_neg hnt, if_pos rfl] at hat
    simp only [checkPlan, goalExit, withPos_grid, withPos_pos, withO_grid, withO_pos, hin, hat, Bool.true_and]
    rfl

theorem tp_targets {sh : Shape} {tA tB : Pos} {s : State} (r : TPRoom sh tA tB s.grid) :
    teleportTargets (withPos s tA) .red = [tB] := by
  unfold teleportTargets
  simp only [withPos_grid, withPos_pos]
  have hcB := r.s2.1.contains r.gh r.gw
  have hatB : s.grid.at tB = .telepod .red := by rw [r.cell _ hcB]; unfold tpCell; rw [if_pos (Or.inr rfl)]
  apply filter_eq_singleton _ _ tB (Grid.positions_nodup _) ((Grid.mem_positions _ _).mpr hcB)
  · have : (tB != tA) = true := by simpa using r.ne.symm
    simp [this, hatB, Obj.isKind, Obj.kind, Obj.color]
  · intro b hb hp
    simp only [Bool.and_eq_true, bne_iff_ne, ne_eq] at hp
    obtain ⟨⟨hne, hk⟩, _⟩ := hp
    have hbc := (Grid.mem_positions _ _).mp hb
    have := (tp_find r b).mp ((Grid.mem_find _ _ _).mpr ⟨hbc, hk⟩)
    rcases this with h | h
    · exact absurd h hne
    · exact h

/-- each way holds one telepod: into the one on `A`, out of the one on `B`, along `B` -/
theorem teleport_via {sh : Shape} {tA tB : Pos} {s : State} (r : TPRoom sh tA tB s.grid)
    (hh : 4 ≤ sh.h) (hw : 4 ≤ sh.w) (hpos : s.agent.pos = ⟨1, 1⟩)
    (hAA : onPathA sh.h sh.w tA = true) (hAB : onPathA sh.h sh.w tB = false)
    (hBA : onPathB sh.h sh.w tA = false) (hBB : onPathB sh.h sh.w tB = true) (d0 : DrawSt) :
    checkPlan tpChain (stopOf .reachExit) goalExit s
      (lPlan s.agent.o s.agent.pos tA ++ (lPlanH s.agent.o tB ⟨sh.h - 2, sh.w - 2⟩ ++ [])) d0 = true := by
  have passA : ∀ c, onPathA sh.h sh.w c = true → c ≠ tA → Interior sh.h.toNat sh.w.toNat c →
      Pass [.turnAgent, .teleport] (stopOf .reachExit) goalExit s c := by
    intro c hc hne hi
    have hneB : c ≠ tB := by intro h; subst h; simp [hc] at hAB
    exact tp_pass r c hi hne hneB
  have hcA := r.s1.1.contains r.gh r.gw
  have hatA : s.grid.at tA = .telepod .red := by rw [r.cell _ hcA]; unfold tpCell; rw [if_pos (Or.inl rfl)]
  have hne11 := r.s1.2.2
  have hneE := r.s1.2.1
  -- after the jump
  have hfinish : ∀ d, checkPlan tpChain (stopOf .reachExit) goalExit (withPos s tB)
      (lPlanH s.agent.o tB ⟨sh.h - 2, sh.w - 2⟩ ++ []) d = true := by
    intro d
    exact teleport_finish_B (s := s) r hh hw hBA hBB s.agent.o d
  have hstopB : ∀ s0 a, stopOf .reachExit s0 a (withPos s tB) = false := by
    intro s0 a
    have hcB := r.s2.1.contains r.gh r.gw
    apply stop_false_of_not_exit s0 a (withPos s tB) r.wf hcB
    simp only [withPos_grid, withPos_pos]
    rw [r.cell _ hcB]; unfold tpCell; rw [if_pos (Or.inr rfl)]; rfl
  rw [onPathA_iff] at hAA
  obtain ⟨ya, xa⟩ := tA
  simp only at hAA
  by_cases hcol : xa = 1
  · -- the telepod is in the first column
    subst hcol
    have hya : 2 ≤ ya ∧ ya ≤ sh.h - 2 := by
      have : ya ≠ 1 := by intro h; subst h; exact hne11 rfl
      rcases hAA with ⟨_, a, b⟩ | ⟨a, _, _⟩ <;> omega
    have hplan : lPlan s.agent.o s.agent.pos ⟨ya, 1⟩ = walk s.agent.o .B ((ya - 2).toNat + 1) ++ [] := by
      rw [hpos]
      unfold lPlan
      have e1 : ((⟨ya, 1⟩ : Pos).y - (⟨1, 1⟩ : Pos).y).natAbs = (ya - 2).toNat + 1 := by simp only; omega
      have e2 : ((⟨ya, 1⟩ : Pos).x - (⟨1, 1⟩ : Pos).x).natAbs = 0 := by simp
      have e3 : ¬ ((⟨ya, 1⟩ : Pos).y < (⟨1, 1⟩ : Pos).y) := by simp only; omega
      rw [e1, e2, if_neg e3]
      simp [walk]
    rw [hplan, List.append_nil]
    apply walk_land [.turnAgent, .teleport] (stopOf .reachExit) goalExit .B (ya - 2).toNat s _ d0
      (drawChoice 1 d0).2 (withPos s tB)
    · intro k hk1 hk2
      rw [hpos]
      have e : shift ⟨1, 1⟩ .B k = ⟨1 + k, 1⟩ := by
        simp only [shift, Pos.ofOrient, Pos.mk.injEq]; omega
      rw [e]
      apply passA
      · rw [onPathA_iff]; left; exact ⟨rfl, by simp only; omega, by simp only; omega⟩
      · rw [Ne, Pos.ext_iff']; simp only; omega
      · unfold Interior; simp only; omega
    · have e : shift s.agent.pos .B (ya - 2).toNat = ⟨ya - 1, 1⟩ := by
        rw [hpos]; simp only [shift, Pos.ofOrient, Pos.mk.injEq]; omega
      rw [e]
      have := step_onto_telepod (withPos s ⟨ya - 1, 1⟩) .B d0 ⟨ya, 1⟩ tB .red r.wf
        (by simp only [withPos_pos, Pos.add, Pos.ofOrient, Pos.mk.injEq]; omega) hcA hatA
        (by simp only [withPos_withPos]; exact tp_targets r)
      simpa only [withPos_o, withPos_withPos, tpChain] using this
    · exact Or.inr (hstopB _ _)
    · exact hfinish _
  · -- the telepod is in the last row, right of the first column
    have hxa : ya = sh.h - 2 ∧ 2 ≤ xa ∧ xa ≤ sh.w - 3 := by
      have hx2 : xa ≠ sh.w - 2 ∨ ya ≠ sh.h - 2 := by
        by_cases h : xa = sh.w - 2
        · right; intro h2; subst h; subst h2; exact hneE rfl
        · left; exact h
      rcases hAA with ⟨a, _, _⟩ | ⟨a, b, c⟩
      · exact absurd a hcol
      · refine ⟨a, by omega, ?_⟩
        rcases hx2 with h | h
        · omega
        · exact absurd a h
    obtain ⟨rfl, hx2, hx3⟩ := hxa
    have hplan : lPlan s.agent.o s.agent.pos ⟨sh.h - 2, xa⟩ =
        walk s.agent.o .B (sh.h - 3).toNat ++ (walk s.agent.o .R ((xa - 2).toNat + 1) ++ []) := by
      rw [hpos]
      unfold lPlan
      have e1 : ((⟨sh.h - 2, xa⟩ : Pos).y - (⟨1, 1⟩ : Pos).y).natAbs = (sh.h - 3).toNat := by simp only; omega
      have e2 : ((⟨sh.h - 2, xa⟩ : Pos).x - (⟨1, 1⟩ : Pos).x).natAbs = (xa - 2).toNat + 1 := by simp only; omega
      have e3 : ¬ ((⟨sh.h - 2, xa⟩ : Pos).y < (⟨1, 1⟩ : Pos).y) := by simp only; omega
      have e4 : ¬ ((⟨sh.h - 2, xa⟩ : Pos).x < (⟨1, 1⟩ : Pos).x) := by simp only; omega
      rw [e1, e2, if_neg e3, if_neg e4, List.append_nil]
    rw [hplan, List.append_assoc]
    apply walk_then [.turnAgent, .teleport] (stopOf .reachExit) goalExit .B (sh.h - 3).toNat s _ d0
    · intro k hk1 hk2
      rw [hpos]
      have e : shift ⟨1, 1⟩ .B k = ⟨1 + k, 1⟩ := by
        simp only [shift, Pos.ofOrient, Pos.mk.injEq]; omega
      rw [e]
      apply passA
      · rw [onPathA_iff]; left; exact ⟨rfl, by simp only; omega, by simp only; omega⟩
      · rw [Ne, Pos.ext_iff']; simp only; omega
      · unfold Interior; simp only; omega
    · have e : shift s.agent.pos .B (sh.h - 3).toNat = ⟨sh.h - 2, 1⟩ := by
        rw [hpos]; simp only [shift, Pos.ofOrient, Pos.mk.injEq]; omega
      rw [e, List.append_nil]
      have wl := walk_land [.turnAgent, .teleport] (stopOf .reachExit) goalExit .R (xa - 2).toNat
        (withPos s ⟨sh.h - 2, 1⟩) (lPlanH s.agent.o tB ⟨sh.h - 2, sh.w - 2⟩ ++ []) d0 (drawChoice 1 d0).2 (withPos s tB)
      simp only [withPos_o, withPos_pos, withPos_withPos] at wl
      apply wl
      · intro k hk1 hk2
        have e : shift ⟨sh.h - 2, 1⟩ .R k = ⟨sh.h - 2, 1 + k⟩ := by
          simp only [shift, Pos.ofOrient, Pos.mk.injEq]; omega
        rw [e]
        have p := passA ⟨sh.h - 2, 1 + k⟩ (by rw [onPathA_iff]; right; exact ⟨rfl, by simp only; omega, by simp only; omega⟩)
          (by rw [Ne, Pos.ext_iff']; simp only; omega) (by unfold Interior; simp only; omega)
        exact ⟨p.inside, p.free, p.quiet, p.go⟩
      · have e : shift ⟨sh.h - 2, 1⟩ .R (xa - 2).toNat = ⟨sh.h - 2, xa - 1⟩ := by
          simp only [shift, Pos.ofOrient, Pos.mk.injEq]; omega
        rw [e]
        have := step_onto_telepod (withPos s ⟨sh.h - 2, xa - 1⟩) .R d0 ⟨sh.h - 2, xa⟩ tB .red r.wf
          (by simp only [withPos_pos, Pos.add, Pos.ofOrient, Pos.mk.injEq]; omega) hcA hatA
          (by simp only [withPos_withPos]; exact tp_targets r)
        simpa only [withPos_o, withPos_withPos, tpChain] using this
      · exact Or.inr (hstopB _ _)
      · exact hfinish _

theorem tp_not_both {sh : Shape} {t : Pos} (hh : 4 ≤ sh.h) (hw : 4 ≤ sh.w) (ht : TPSpot sh t) (hA : onPathA sh.h sh.w t = true)
    (hB : onPathB sh.h sh.w t = true) : False := by
  rw [onPathA_iff] at hA
  rw [onPathB_iff] at hB
  obtain ⟨⟨i1, i2, i3, i4⟩, hne, hn1⟩ := ht
  have : t = ⟨1, 1⟩ ∨ t = ⟨sh.h - 2, sh.w - 2⟩ := by
    rcases hA with ⟨a1, a2, a3⟩ | ⟨a1, a2, a3⟩ <;> rcases hB with ⟨b1, b2, b3⟩ | ⟨b1, b2, b3⟩
    · left; rw [Pos.ext_iff']; exact ⟨b1, a1⟩
    · exfalso; omega
    · exfalso; omega
    · right; rw [Pos.ext_iff']; exact ⟨a1, b1⟩
  rcases this with h | h
  · exact hn1 h
  · exact hne h

/-- **C14 (`teleport`).**  For every valid shape and every stream of draws, under the shipped
dynamics `[move_agent, turn_agent, teleport]`: `planTeleport` wins — along a way without telepods
if there is one, otherwise through the two telepods. -/
theorem C14_teleport (sh : Shape) (d d0 : DrawSt) (hv : 4 ≤ sh.h ∧ 4 ≤ sh.w) :
    ∃ s d', resetTeleport sh d = .ok (s, d') ∧
      checkPlan tpChain (stopOf .reachExit) goalExit s (planTeleport s) d0 = true := by
  obtain ⟨s, d', t1, t2, he, hpos, r⟩ := teleport_room sh d hv
  refine ⟨s, d', he, ?_⟩
  obtain ⟨hh, hw⟩ := hv
  have eh : ((s.grid.h : Nat) : Int) = sh.h := by rw [r.gh]; omega
  have ew : ((s.grid.w : Nat) : Int) = sh.w := by rw [r.gw]; omega
  have hall : ∀ P : Pos → Bool, ((s.grid.find fun o => o.isKind .telepod).all P = true) ↔ (P t1 = true ∧ P t2 = true) := by
    intro P
    rw [List.all_eq_true]
    constructor
    · intro h
      exact ⟨h t1 ((tp_find r t1).mpr (Or.inl rfl)), h t2 ((tp_find r t2).mpr (Or.inr rfl))⟩
    · rintro ⟨h1, h2⟩ q hq
      rcases (tp_find r q).mp hq with rfl | rfl <;> assumption
  unfold planTeleport
  simp only [eh, ew, tp_exit r hh hw]
  by_cases cA : (s.grid.find fun o => o.isKind .telepod).all (fun t => !onPathA sh.h sh.w t) = true
  · rw [if_pos cA]
    obtain ⟨a1, a2⟩ := (hall _).mp cA
    exact teleport_clear_A r hh hw hpos (by simpa using a1) (by simpa using a2) d0
  · rw [if_neg cA]
    by_cases cB : (s.grid.find fun o => o.isKind .telepod).all (fun t => !onPathB sh.h sh.w t) = true
    · rw [if_pos cB]
      obtain ⟨b1, b2⟩ := (hall _).mp cB
      exact teleport_clear_B r hh hw hpos (by simpa using b1) (by simpa using b2) d0
    · rw [if_neg cB]
      -- one telepod on each way; name them
      have main : ∀ tA tB, TPRoom sh tA tB s.grid → onPathA sh.h sh.w tA = true →
          onPathA sh.h sh.w tB = false → onPathB sh.h sh.w tA = false → onPathB sh.h sh.w tB = true →
          checkPlan tpChain (stopOf .reachExit) goalExit s
            (lPlan s.agent.o s.agent.pos
                (((s.grid.find fun o => o.isKind .telepod).filter (onPathA sh.h sh.w)).headD s.agent.pos) ++
              (lPlanH s.agent.o
                  (((s.grid.find fun o => o.isKind .telepod).filter fun t => t !=
                    ((s.grid.find fun o => o.isKind .telepod).filter (onPathA sh.h sh.w)).headD s.agent.pos).headD s.agent.pos)
                  ⟨sh.h - 2, sh.w - 2⟩ ++ [])) d0 = true := by
        intro tA tB r' hAA hAB hBA hBB
        have e1 : ((s.grid.find fun o => o.isKind .telepod).filter (onPathA sh.h sh.w)).headD s.agent.pos = tA := by
          apply head_of_all_eq'
          · rw [List.mem_filter]; exact ⟨(tp_find r' tA).mpr (Or.inl rfl), hAA⟩
          · intro q hq
            rw [List.mem_filter] at hq
            rcases (tp_find r' q).mp hq.1 with h | h
            · exact h
            · subst h; rw [hAB] at hq; exact absurd hq.2 (by decide)
        rw [e1]
        have e2 : ((s.grid.find fun o => o.isKind .telepod).filter fun t => t != tA).headD s.agent.pos = tB := by
          apply head_of_all_eq'
          · rw [List.mem_filter]; exact ⟨(tp_find r' tB).mpr (Or.inr rfl), by simpa using r'.ne.symm⟩
          · intro q hq
            rw [List.mem_filter] at hq
            rcases (tp_find r' q).mp hq.1 with h | h
            · subst h; simp at hq
            · exact h
        rw [e2]
        exact teleport_via r' hh hw hpos hAA hAB hBA hBB d0
      have nA : ¬ (onPathA sh.h sh.w t1 = false ∧ onPathA sh.h sh.w t2 = false) := by
        intro h; apply cA; rw [hall]; simp [h.1, h.2]
      have nB : ¬ (onPathB sh.h sh.w t1 = false ∧ onPathB sh.h sh.w t2 = false) := by
        intro h; apply cB; rw [hall]; simp [h.1, h.2]
      cases a1 : onPathA sh.h sh.w t1
      · -- then t2 is on A
        have a2 : onPathA sh.h sh.w t2 = true := by
          cases h : onPathA sh.h sh.w t2
          · exact absurd ⟨a1, h⟩ nA
          · rfl
        have b2 : onPathB sh.h sh.w t2 = false := by
          cases h : onPathB sh.h sh.w t2
          · rfl
          · exact absurd (tp_not_both hh hw r.s2 a2 h) id
        have b1 : onPathB sh.h sh.w t1 = true := by
          cases h : onPathB sh.h sh.w t1
          · exact absurd ⟨h, b2⟩ nB
          · rfl
        exact main t2 t1 r.symm a2 a1 b2 b1
      · have b1 : onPathB sh.h sh.w t1 = false := by
          cases h : onPathB sh.h sh.w t1
          · rfl
          · exact absurd (tp_not_both hh hw r.s1 a1 h) id
        have b2 : onPathB sh.h sh.w t2 = true := by
          cases h : onPathB sh.h sh.w t2
          · exact absurd ⟨b1, h⟩ nB
          · rfl
        have a2 : onPathA sh.h sh.w t2 = false := by
          cases h : onPathA sh.h sh.w t2
          · rfl
          · exact absurd (tp_not_both hh hw r.s2 h b2) id
        exact main t1 t2 r a1 a2 b1 b2

end GV
