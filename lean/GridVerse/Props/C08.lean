/-
  C08 — Agent kinematics: moves and turns do exactly what the action says.

  "A move action displaces the agent by exactly one cell in the commanded direction relative to its
  heading if and only if the target cell is inside the grid and does not block movement, and
  otherwise leaves it in place; turn actions rotate the heading by a quarter turn (left then right,
  or four equal turns, restore it) and never displace, and no other action changes the pose except
  teleportation. Consequently, in every history from a valid initial state the agent is never
  outside the grid nor on a movement-blocking cell."
-/
import GridVerse.Lemmas.Obstacles
import GridVerse.Props.C18
import GridVerse.Agree.Actions
import GridVerse.Agree.Orient
import GridVerse.Agree.Objects
namespace GV

/-- the agent is inside the grid on a cell that does not block movement -/
def State.Valid (s : State) : Prop :=
  s.grid.WF ∧ s.grid.contains s.agent.pos = true ∧ (s.grid.at s.agent.pos).blocksMovement = false

/-! ### moves -/

/-- the commanded target: one cell from the agent in direction heading∘command -/
theorem C08_target (s : State) (a : Action) (m : Orient) (h : a.moveOrient = some m) :
    nextPos s.agent.pos s.agent.o a = s.agent.pos.add ((s.agent.o.mul m).act (Pos.ofOrient .F)) ∧
    Pos.manhattan (nextPos s.agent.pos s.agent.o a) s.agent.pos = 1 := by
  constructor
  · simp [nextPos, h, ← C18_ofOrient_act]
  · exact C18_nextPos_dist _ _ _ (by simp [Action.isMove, h])

/-- a move succeeds iff the target is inside the grid and does not block movement -/
theorem C08_move_iff (s : State) (a : Action) (hm : a.isMove = true) :
    (moveAgent s a).agent.pos =
      (if s.grid.contains (nextPos s.agent.pos s.agent.o a) = true ∧
          (s.grid.at (nextPos s.agent.pos s.agent.o a)).blocksMovement = false
       then nextPos s.agent.pos s.agent.o a else s.agent.pos) := by
  unfold moveAgent
  simp only [hm, if_true]
  by_cases hc : s.grid.contains (nextPos s.agent.pos s.agent.o a) = true
  · by_cases hb : (s.grid.at (nextPos s.agent.pos s.agent.o a)).blocksMovement = true
    · simp [hc, hb]
    · have hb' : (s.grid.at (nextPos s.agent.pos s.agent.o a)).blocksMovement = false := by
        simpa using hb
      simp [hc, hb']
  · simp [hc]

/-- `moved ↔ inside ∧ ¬ blocking` in the literal form of the property -/
theorem C08_move_displaces_iff (s : State) (a : Action) (hm : a.isMove = true) :
    (moveAgent s a).agent.pos = nextPos s.agent.pos s.agent.o a ↔
      (s.grid.contains (nextPos s.agent.pos s.agent.o a) = true ∧
       (s.grid.at (nextPos s.agent.pos s.agent.o a)).blocksMovement = false) := by
  rw [C08_move_iff s a hm]
  constructor
  · intro h
    by_cases hc : s.grid.contains (nextPos s.agent.pos s.agent.o a) = true ∧
        (s.grid.at (nextPos s.agent.pos s.agent.o a)).blocksMovement = false
    · exact hc
    · rw [if_neg hc] at h
      have := C18_nextPos_dist s.agent.pos s.agent.o a hm
      rw [← h] at this
      simp [Pos.manhattan] at this
  · intro h; rw [if_pos h]

/-- moving changes nothing but the position -/
theorem C08_move_frame (s : State) (a : Action) :
    (moveAgent s a).grid = s.grid ∧ (moveAgent s a).agent.o = s.agent.o ∧
    (moveAgent s a).agent.held = s.agent.held := by
  unfold moveAgent
  simp only []
  repeat' split
  all_goals exact ⟨rfl, rfl, rfl⟩

theorem C08_move_other_action (s : State) (a : Action) (h : a.isMove = false) : moveAgent s a = s := by
  simp [moveAgent, h]

/-! ### turns -/

theorem C08_turn (s : State) (a : Action) :
    (turnAgent s a).agent.pos = s.agent.pos ∧ (turnAgent s a).grid = s.grid ∧
    (turnAgent s a).agent.held = s.agent.held ∧
    (turnAgent s a).agent.o = (match a.turnOrient with | some t => s.agent.o.mul t | none => s.agent.o) := by
  unfold turnAgent
  cases a.turnOrient <;> exact ⟨rfl, rfl, rfl, rfl⟩

theorem C08_turn_left_right (s : State) :
    turnAgent (turnAgent s .turnL) .turnR = s ∧ turnAgent (turnAgent s .turnR) .turnL = s := by
  obtain ⟨g, ⟨p, o, hd⟩⟩ := s
  constructor <;> cases o <;> rfl

theorem C08_turn_four (s : State) (a : Action) :
    turnAgent (turnAgent (turnAgent (turnAgent s a) a) a) a = s := by
  obtain ⟨g, ⟨p, o, hd⟩⟩ := s
  cases a <;> cases o <;> rfl

theorem C08_turn_quarter (s : State) :
    (turnAgent s .turnL).agent.o = s.agent.o.mul .L ∧ (turnAgent s .turnR).agent.o = s.agent.o.mul .R ∧
    (turnAgent s .turnL).agent.o ≠ s.agent.o ∧ (turnAgent s .turnR).agent.o ≠ s.agent.o := by
  obtain ⟨g, ⟨p, o, hd⟩⟩ := s
  refine ⟨rfl, rfl, ?_, ?_⟩ <;> cases o <;> simp [turnAgent, Action.turnOrient, Orient.mul]

/-! ### no other transition changes the pose (teleport: only the position) -/

theorem C08_frame_pickndrop (s : State) (a : Action) :
    (pickndrop s a).agent.pos = s.agent.pos ∧ (pickndrop s a).agent.o = s.agent.o := by
  unfold pickndrop
  simp only []
  repeat' split
  all_goals exact ⟨rfl, rfl⟩

theorem C08_frame_actuateDoor (s : State) (a : Action) : (actuateDoor s a).agent = s.agent := by
  unfold actuateDoor
  simp only []
  repeat' split
  all_goals rfl

theorem C08_frame_actuateBox (s : State) (a : Action) : (actuateBox s a).agent = s.agent := by
  unfold actuateBox
  simp only []
  repeat' split
  all_goals rfl

theorem C08_frame_moveObstacles (s : State) (d : DrawSt) : (moveObstacles s d).1.agent = s.agent := rfl

theorem C08_teleport_pose (s s' : State) (d d' : DrawSt) (h : teleport s d = .ok (s', d')) :
    s'.agent.o = s.agent.o ∧ s'.agent.held = s.agent.held ∧ s'.grid = s.grid := by
  unfold teleport at h
  split at h
  · cases h
  · split at h
    · simp only [] at h
      split at h
      · cases h; exact ⟨rfl, rfl, rfl⟩
      · split at h <;> (cases h; exact ⟨rfl, rfl, rfl⟩)
    · cases h; exact ⟨rfl, rfl, rfl⟩

/-- only `move_agent` and `teleport` can change the position; only `turn_agent` the heading -/
theorem C08_pose_frame (f : TransAtom) (s s' : State) (a : Action) (d d' : DrawSt)
    (h : f.run s a d = .ok (s', d')) :
    (f ≠ .moveAgent → f ≠ .teleport → s'.agent.pos = s.agent.pos) ∧
    (f ≠ .turnAgent → s'.agent.o = s.agent.o) := by
  cases f <;> simp only [TransAtom.run, Except.ok.injEq, Prod.mk.injEq] at h
  · obtain ⟨rfl, _⟩ := h; exact ⟨fun h => absurd rfl h, fun _ => (C08_move_frame s a).2.1⟩
  · obtain ⟨rfl, _⟩ := h; exact ⟨fun _ _ => (C08_turn s a).1, fun h => absurd rfl h⟩
  · obtain ⟨rfl, _⟩ := h; exact ⟨fun _ _ => (C08_frame_pickndrop s a).1, fun _ => (C08_frame_pickndrop s a).2⟩
  · have : s' = (moveObstacles s d).1 := by rw [h]
    subst this; exact ⟨fun _ _ => rfl, fun _ => rfl⟩
  · obtain ⟨rfl, _⟩ := h; rw [C08_frame_actuateDoor]; exact ⟨fun _ _ => rfl, fun _ => rfl⟩
  · obtain ⟨rfl, _⟩ := h; rw [C08_frame_actuateBox]; exact ⟨fun _ _ => rfl, fun _ => rfl⟩
  · exact ⟨fun _ h => absurd rfl h, fun _ => (C08_teleport_pose s s' d d' h).1⟩

/-! ### the history invariant -/

theorem front_ne_pos (ag : Agent) : ag.front ≠ ag.pos := by
  intro h
  have := C18_nextPos_dist ag.pos ag.o .moveF rfl
  rw [← C18_front, h] at this
  simp [Pos.manhattan] at this

theorem valid_setP_front (s : State) (hv : s.Valid) (o : Obj) (hc : s.grid.contains s.agent.front = true) :
    State.Valid { s with grid := s.grid.setP s.agent.front o } := by
  obtain ⟨hw, hc', hb⟩ := hv
  refine ⟨Grid.setP_WF _ hw _ _, by simpa using hc', ?_⟩
  simp only
  rw [Grid.at_setP _ hw _ _ hc, if_neg (Ne.symm (front_ne_pos s.agent)), hb]

theorem C08_valid_moveAgent (s : State) (a : Action) (hv : s.Valid) : (moveAgent s a).Valid := by
  obtain ⟨hw, hc, hb⟩ := hv
  unfold moveAgent
  simp only []
  repeat' split
  all_goals first
    | exact ⟨hw, hc, hb⟩
    | (refine ⟨hw, ?_, ?_⟩ <;> simp_all)

theorem C08_valid_turnAgent (s : State) (a : Action) (hv : s.Valid) : (turnAgent s a).Valid := by
  unfold turnAgent
  cases a.turnOrient <;> exact hv

theorem C08_valid_pickndrop (s : State) (a : Action) (hv : s.Valid) : (pickndrop s a).Valid := by
  unfold pickndrop
  simp only []
  repeat' split
  all_goals first
    | exact hv
    | exact valid_setP_front s hv _ (by assumption)

theorem C08_valid_actuateDoor (s : State) (a : Action) (hv : s.Valid) : (actuateDoor s a).Valid := by
  unfold actuateDoor
  simp only []
  repeat' split
  all_goals first
    | exact hv
    | exact valid_setP_front s hv _ (by assumption)

theorem C08_valid_actuateBox (s : State) (a : Action) (hv : s.Valid) : (actuateBox s a).Valid := by
  unfold actuateBox
  simp only []
  repeat' split
  all_goals first
    | exact hv
    | exact valid_setP_front s hv _ (by assumption)

theorem C08_valid_moveObstacles (s : State) (d : DrawSt) (hv : s.Valid) : (moveObstacles s d).1.Valid := by
  obtain ⟨hw, hc, hb⟩ := hv
  rw [moveObstacles_eq]
  have hinv := obstaclesFold_inv (s.grid.find fun o => o.isKind .obstacle) s.grid d hw
    (Grid.find_nodup _ _)
    (fun p hp => by
      rw [Grid.mem_find] at hp
      exact ⟨hp.1, isKind_obstacle _ hp.2⟩)
  obtain ⟨h1, h2, h3, h4⟩ := hinv
  refine ⟨h1, ?_, ?_⟩
  · simp only [Grid.contains, h2, h3] at hc ⊢; exact hc
  · simp only
    rcases h4 s.agent.pos with h | ⟨_, h⟩ | ⟨_, _, h⟩
    · rw [h]; exact hb
    · rw [h]; rfl
    · rw [h]; rfl

theorem isKind_telepod_nonblocking (o : Obj) (h : o.isKind .telepod = true) :
    o.blocksMovement = false := by
  cases o <;> simp [Obj.isKind, Obj.kind] at h <;> rfl

theorem C08_valid_teleport (s s' : State) (d d' : DrawSt) (hv : s.Valid)
    (h : teleport s d = .ok (s', d')) : s'.Valid := by
  obtain ⟨hw, hc, hb⟩ := hv
  unfold teleport at h
  split at h
  · cases h
  · split at h
    · simp only [] at h
      split at h
      · cases h; exact ⟨hw, hc, hb⟩
      · rename_i t _ _ hne
        split at h
        · cases h; exact ⟨hw, hc, hb⟩
        · rename_i i d'' hdc
          cases h
          have hi := drawChoice_some_lt _ _ _ _ hdc
          have hmem : (teleportTargets s t.color).getD i s.agent.pos ∈ teleportTargets s t.color := by
            simp [List.getD, hi]
          simp only [teleportTargets, List.mem_filter, Bool.and_eq_true, Grid.mem_positions] at hmem
          obtain ⟨hin, ⟨_, hk⟩, _⟩ := hmem
          exact ⟨hw, hin, isKind_telepod_nonblocking _ hk⟩
    · cases h; exact ⟨hw, hc, hb⟩

/-- every primitive transition preserves validity -/
theorem C08_invariant_atom (f : TransAtom) (s s' : State) (a : Action) (d d' : DrawSt)
    (hv : s.Valid) (h : f.run s a d = .ok (s', d')) : s'.Valid := by
  cases f <;> simp only [TransAtom.run, Except.ok.injEq, Prod.mk.injEq] at h
  · obtain ⟨rfl, _⟩ := h; exact C08_valid_moveAgent s a hv
  · obtain ⟨rfl, _⟩ := h; exact C08_valid_turnAgent s a hv
  · obtain ⟨rfl, _⟩ := h; exact C08_valid_pickndrop s a hv
  · have : s' = (moveObstacles s d).1 := by rw [h]
    subst this; exact C08_valid_moveObstacles s d hv
  · obtain ⟨rfl, _⟩ := h; exact C08_valid_actuateDoor s a hv
  · obtain ⟨rfl, _⟩ := h; exact C08_valid_actuateBox s a hv
  · exact C08_valid_teleport s s' d d' hv h

/-- … hence every composition (`chain`) does -/
theorem C08_invariant_chain (fs : List TransAtom) (s s' : State) (a : Action) (d d' : DrawSt)
    (hv : s.Valid) (h : runChain fs s a d = .ok (s', d')) : s'.Valid := by
  induction fs generalizing s d with
  | nil => simp only [runChain, Except.ok.injEq, Prod.mk.injEq] at h; obtain ⟨rfl, _⟩ := h; exact hv
  | cons f fs ih =>
    simp only [runChain] at h
    split at h
    · cases h
    · rename_i s1 d1 h1
      exact ih s1 d1 (C08_invariant_atom f s s1 a d d1 hv h1) h

/-- a history: the same chain applied for a sequence of actions, draws threaded through -/
def runHistory (fs : List TransAtom) : List Action → State → DrawSt → Except PyErr (State × DrawSt)
  | [], s, d => .ok (s, d)
  | a :: as, s, d =>
    match runChain fs s a d with
    | .error e => .error e
    | .ok (s', d') => runHistory fs as s' d'

/-- in every history from a valid state — any chain of built-in transitions, any actions, any
random outcomes — the agent is inside the grid on a non-blocking cell -/
theorem C08_invariant_history (fs : List TransAtom) (acts : List Action) (s s' : State) (d d' : DrawSt)
    (hv : s.Valid) (h : runHistory fs acts s d = .ok (s', d')) : s'.Valid := by
  induction acts generalizing s d with
  | nil => simp only [runHistory, Except.ok.injEq, Prod.mk.injEq] at h; obtain ⟨rfl, _⟩ := h; exact hv
  | cons a as ih =>
    simp only [runHistory] at h
    split at h
    · cases h
    · rename_i s1 d1 h1
      exact ih s1 d1 (C08_invariant_chain fs s s1 a d d1 hv h1) h

/-- on valid states no built-in transition raises: histories never fail -/
theorem C08_total_atom (f : TransAtom) (s : State) (a : Action) (d : DrawSt) (hv : s.Valid) :
    ∃ s' d', f.run s a d = .ok (s', d') := by
  cases f
  case teleport =>
    obtain ⟨hw, hc, _⟩ := hv
    simp only [TransAtom.run, teleport, Grid.pyGet_of_contains _ hw _ hc]
    split
    · split
      · exact ⟨_, _, rfl⟩
      · split <;> exact ⟨_, _, rfl⟩
    · exact ⟨_, _, rfl⟩
  all_goals exact ⟨_, _, rfl⟩

/-! ### the behaviour before the repair, kept as a witness (see findings/F1) -/
example :
    let s : State := ⟨Grid.fill 3 3 .floor, ⟨⟨0, 1⟩, .F, .noneObj⟩⟩
    s.Valid ∧ (moveAgentUnguarded s .moveF).agent.pos = ⟨-1, 1⟩ ∧ (moveAgent s .moveF).agent.pos = ⟨0, 1⟩ := by
  refine ⟨⟨Grid.tab_WF _ _ _, by decide, by decide⟩, by decide, by decide⟩

/-! ### non-vacuity -/
example : (⟨⟨3, 3, [[.wall, .wall, .wall], [.wall, .floor, .door .locked .yellow], [.wall, .obstacle, .wall]]⟩,
    ⟨⟨1, 1⟩, .R, .key .yellow⟩⟩ : State).Valid := by
  refine ⟨⟨rfl, ?_⟩, by decide, by decide⟩
  intro r hr; simp at hr; rcases hr with h | h | h <;> subst h <;> rfl

end GV
