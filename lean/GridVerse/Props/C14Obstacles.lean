/-
  C14 for the shipped `dynamic_obstacles` parameter sets (5×5 with one obstacle, 7×7 with two, fixed
  agent), under the shipped dynamics `[move_agent, turn_agent, move_obstacles]` and the shipped
  termination `reduce_any [reach_exit, bump_moving_obstacle, bump_into_wall]`.

  Winnability here is stochastic: the obstacles move on every step.  `Reaches` asks for *some* actions
  and *some* resolution of the draws.  The reset can only produce finitely many layouts (the obstacle
  cells are picked by index among the vacant cells); for each of them a winning (actions, draws)
  certificate — found once by a model-side search (Tools/GenObstacleCerts.lean) and stored in
  `C14ObstaclesData.lean` — is re-run by the kernel (`decide +kernel` on the proved-sound `checkPlan`).
  The general statement (any shape, any number of obstacles) is false: see known finding F11.
-/
import GridVerse.Props.C14
import GridVerse.Lemmas.ObstacleCert
import GridVerse.Props.C14ObstaclesData
import GridVerse.Props.C14ObstaclesCover
import GridVerse.Props.C14ObstaclesCk0
import GridVerse.Props.C14ObstaclesCk1
import GridVerse.Props.C14ObstaclesCk2
import GridVerse.Props.C14ObstaclesCk3
import GridVerse.Props.C14ObstaclesCk4
import GridVerse.Props.C14ObstaclesCk5
import GridVerse.Props.C14ObstaclesCk6
import GridVerse.Props.C14ObstaclesCk7
set_option linter.unusedSimpArgs false
namespace GV

theorem certOK_reaches (s0 : State) (row : List Nat × (List Action × List Nat)) (h : certOK s0 row = true) :
    ∃ s, obstacleState s0 row.1 = .ok s ∧ Reaches obsChain obsStop goalExit s := by
  unfold certOK at h
  cases hs : obstacleState s0 row.1 with
  | error e => rw [hs] at h; cases h
  | ok s =>
    rw [hs] at h
    exact ⟨s, rfl, C14_certificate_sound _ _ _ _ _ _ h⟩

theorem reset_is_obstacleState (sh : Shape) (n : Nat) (d : DrawSt)
    (hroom : resetEmpty sh false false d = .ok (room sh, d)) (hn : n ≤ (vacant (room sh)).length) :
    ∃ idx d', idx.length = n ∧ idx.Nodup ∧ (∀ i ∈ idx, i < (vacant (room sh)).length) ∧
      resetDynamicObstacles sh n false d =
        (match obstacleState (room sh) idx with | .ok s => .ok (s, d') | .error e => .error e) := by
  obtain ⟨idx, d1, hc, hl, hnd, hlt⟩ := drawChoiceNR_some (vacant (room sh)).length n hn d
  refine ⟨idx, d1, hl, hnd, hlt, ?_⟩
  have hneg : ¬ ((n : Int) < 0) := by omega
  simp only [resetDynamicObstacles, hroom, hneg, decide_false, Bool.false_eq_true, if_false,
    Int.toNat_natCast]
  change (match drawChoiceNR (vacant (room sh)).length n d with
    | (none, _) => Except.error PyErr.valueError
    | (some idx, d) =>
      match drawAll (room sh).grid (idx.map fun i => (vacant (room sh)).getD i ⟨0, 0⟩) .obstacle with
      | .error e => .error e
      | .ok g => .ok ({ room sh with grid := g }, d)) = _
  rw [hc]
  simp only [obstacleState, vacant]
  generalize drawAll (room sh).grid _ Obj.obstacle = r
  cases r <;> rfl

/-! ### 5×5, one obstacle -/

theorem vacant5 : (vacant (room ⟨5, 5⟩)).length = 7 := vacant5'

/-- **C14 (`dynamic_obstacles`, shipped 5×5 with one obstacle).**  For every stream of draws the
reset succeeds and the exit can be reached without an earlier terminating step (bumping into the
obstacle or a wall included), for some resolution of the obstacle's moves. -/
theorem C14_dynamic_obstacles_5x5 (d : DrawSt) :
    ∃ s d', resetDynamicObstacles ⟨5, 5⟩ 1 false d = .ok (s, d') ∧ Reaches obsChain obsStop goalExit s := by
  obtain ⟨idx, d', hl, _, hlt, he⟩ := reset_is_obstacleState ⟨5, 5⟩ 1 d (room5_fixed d) (by rw [vacant5]; omega)
  match idx, hl, hlt, he with
  | [i], _, hlt, he =>
    have hi : i < 7 := by have := hlt i (by simp); rwa [vacant5] at this
    obtain ⟨row, hrow, hr1⟩ := certs5_cover i hi
    have hok := List.all_eq_true.mp certs5_ok row hrow
    obtain ⟨s, hs, hreach⟩ := certOK_reaches _ row hok
    rw [hr1] at hs
    refine ⟨s, d', ?_, hreach⟩
    have he' : resetDynamicObstacles ⟨5, 5⟩ ((1 : Nat) : Int) false d = _ := he
    rw [hs] at he'
    exact he'

/-! ### 7×7, two obstacles -/

theorem certs7_ok : Cert.obstacles7x7.all (certOK (room ⟨7, 7⟩)) = true := by
  simp only [Cert.obstacles7x7, List.all_append, Bool.and_eq_true]
  exact ⟨⟨⟨⟨⟨⟨⟨certs7_ok_0, certs7_ok_1⟩, certs7_ok_2⟩, certs7_ok_3⟩, certs7_ok_4⟩, certs7_ok_5⟩, certs7_ok_6⟩, certs7_ok_7⟩

theorem vacant7 : (vacant (room ⟨7, 7⟩)).length = 23 := vacant7'

/-- **C14 (`dynamic_obstacles`, shipped 7×7 with two obstacles).** -/
theorem C14_dynamic_obstacles_7x7 (d : DrawSt) :
    ∃ s d', resetDynamicObstacles ⟨7, 7⟩ 2 false d = .ok (s, d') ∧ Reaches obsChain obsStop goalExit s := by
  obtain ⟨idx, d', hl, hnd, hlt, he⟩ := reset_is_obstacleState ⟨7, 7⟩ 2 d (room7_fixed d) (by rw [vacant7]; omega)
  match idx, hl, hnd, hlt, he with
  | [i, j], _, hnd, hlt, he =>
    have hi : i < 23 := by have := hlt i (by simp); rwa [vacant7] at this
    have hj : j < 23 := by have := hlt j (by simp); rwa [vacant7] at this
    have hij : i ≠ j := by intro h; subst h; simp at hnd
    obtain ⟨row, hrow, hr1⟩ := certs7_cover i hi j hj hij
    have hok := List.all_eq_true.mp certs7_ok row hrow
    obtain ⟨s, hs, hreach⟩ := certOK_reaches _ row hok
    rw [hr1] at hs
    refine ⟨s, d', ?_, hreach⟩
    have he' : resetDynamicObstacles ⟨7, 7⟩ ((2 : Nat) : Int) false d = _ := he
    rw [hs] at he'
    exact he'

end GV
