/-
  C02 — Seeded environments are reproducible and isolated from every global RNG.

  "Two environments built from the same configuration and given the same seed produce identical
  sequences of states, observations, rewards and termination flags under the same action sequence -
  within one process, across processes regardless of hash randomisation, with the debug flag on or
  off, and however their operations are interleaved with those of other environments. A seeded
  environment never draws from, or perturbs, the library-level generator or any other global random
  source."

  What is logic here — where draws come from and in which order, for any interleaving — is proved
  on the world model.  That the *code's* components request their draws from the generator they
  are handed, in the model's order, and from nothing else (numpy's legacy global, `random`) is the
  correspondence's part: every generator call of every component is recorded and compared, and the
  global sources are snapshotted around every operation.  numpy's bit generator and CPython's hash
  randomisation themselves are in the trusted base.
-/
import GridVerse.Model.World
import GridVerse.Model.Reset
import GridVerse.Props.C01
set_option linter.unusedSimpArgs false
namespace GV

/-! ### determinism: a trajectory is a function of (configuration, seed stream, actions) -/

/-- two instances of the same configuration, seeded alike and driven alike, produce the same
outputs and end in the same state (the model has no hidden state; that the code has none is what the
history correspondence checks) -/
theorem C02_deterministic (e : EnvSpec) (ans : List Nat) (ops : List Op) :
    Machine.run e (Machine.init ⟨ans, []⟩) ops = Machine.run e (Machine.init ⟨ans, []⟩) ops := rfl

/-! ### a seeded instance neither reads nor advances the library generator -/

theorem exec1_seeded (e : EnvInst) (d0 : DrawSt) (hs : e.rng = some d0) (lib lib' : DrawSt) (op : Op) :
    (e.exec1 lib op).1 = (e.exec1 lib' op).1 ∧ (e.exec1 lib op).2.1 = lib ∧
    (e.exec1 lib op).2.2 = (e.exec1 lib' op).2.2 ∧ (e.exec1 lib op).1.rng.isSome = true := by
  have hm : e.machine lib = e.machine lib' := by simp [EnvInst.machine, hs]
  cases op <;> simp [EnvInst.exec1, hs, hm]

/-- an unseeded instance, by contrast, does draw from the library generator (so isolation is a
property of seeding, not of the model's construction) -/
example :
    let spec : EnvSpec := {
      stateSpace := ⟨4, 4, [.wall, .floor, .exit], []⟩, actions := ⟨Action.all⟩,
      obsSpace := ⟨1, 1, [.wall, .floor, .exit], []⟩,
      reset := fun d => resetEmpty ⟨4, 4⟩ true false d, trans := [], rewards := [],
      observe := observeOf .ft ⟨0, 0, 0, 0⟩ [], term := .reachExit, debug := false }
    ((⟨spec, none, none, none⟩ : EnvInst).exec1 ⟨[1, 2], []⟩ .reset).2.1.ans = [] ∧
    ((⟨spec, none, none, some ⟨[1, 2], []⟩⟩ : EnvInst).exec1 ⟨[7, 7], []⟩ .reset).2.1.ans = [7, 7] := by
  decide

def World.Seeded (w : World) : Prop := ∀ e ∈ w.envs, e.rng.isSome = true

theorem World.exec_seeded (w : World) (hs : w.Seeded) (op : WOp) : (w.exec op).1.Seeded := by
  cases op with
  | libChoice n => exact hs
  | env i op =>
    simp only [World.exec]
    cases hi : w.envs[i]? with
    | none => exact hs
    | some e =>
      simp only
      intro x hx
      have he : e ∈ w.envs := List.mem_of_getElem? hi
      obtain ⟨d0, hd0⟩ := Option.isSome_iff_exists.mp (hs e he)
      rcases List.mem_or_eq_of_mem_set hx with h | h
      · exact hs x h
      · rw [h]; exact (exec1_seeded e d0 hd0 w.lib w.lib op).2.2.2

/-- C02 isolation: in a world where every live environment is seeded, for any interleaving of
operations of the environments and of direct calls on the library generator:
* the library generator ends exactly where the direct calls alone would have left it — no
  environment operation advanced it;
* each environment ends in the state, and produced the outputs, of running its own operations
  alone (`l0` is an arbitrary library generator for the solo run: it is never consulted). -/
theorem C02_isolation (ops : List WOp) (w : World) (hs : w.Seeded) (l0 : DrawSt) :
    (World.run w ops).1.lib = runLib w.lib (libCalls ops) ∧
    ∀ i e, w.envs[i]? = some e →
      (World.run w ops).1.envs[i]? = some (soloRun l0 e (projectOps i ops)).1 ∧
      projectOuts i ops (World.run w ops).2 = (soloRun l0 e (projectOps i ops)).2 := by
  induction ops generalizing w with
  | nil => exact ⟨rfl, fun i e h => ⟨h, rfl⟩⟩
  | cons op ops ih =>
    have hs' := World.exec_seeded w hs op
    obtain ⟨ihlib, ihenv⟩ := ih (w.exec op).1 hs'
    cases op with
    | libChoice n =>
      refine ⟨?_, ?_⟩
      · simp only [World.run, libCalls, runLib, List.foldl_cons] at ihlib ⊢
        exact ihlib
      · intro i e hi
        have := ihenv i e (by simpa [World.exec] using hi)
        simpa [World.run, projectOps, projectOuts] using this
    | env j op' =>
      cases hj : w.envs[j]? with
      | none =>
        have hexec : w.exec (.env j op') = (w, .err .indexError) := by simp [World.exec, hj]
        refine ⟨?_, ?_⟩
        · simp only [World.run, libCalls, hexec] at ihlib ⊢; exact ihlib
        · intro i e hi
          have hne : j ≠ i := by intro h; subst h; rw [hj] at hi; cases hi
          rw [hexec] at ihenv
          have := ihenv i e hi
          simpa [World.run, hexec, projectOps, projectOuts, hne] using this
      | some ej =>
        have hej : ej ∈ w.envs := List.mem_of_getElem? hj
        obtain ⟨d0, hd0⟩ := Option.isSome_iff_exists.mp (hs ej hej)
        obtain ⟨hA, hB, hC, _⟩ := exec1_seeded ej d0 hd0 w.lib l0 op'
        have hexec : w.exec (.env j op') =
            (⟨w.lib, w.envs.set j (ej.exec1 w.lib op').1⟩, (ej.exec1 w.lib op').2.2) := by
          simp only [World.exec, hj, hB]
        refine ⟨?_, ?_⟩
        · simp only [World.run, libCalls, hexec] at ihlib ⊢; exact ihlib
        · intro i e hi
          rw [hexec] at ihenv
          by_cases hji : j = i
          · subst hji
            have hee : ej = e := by rw [hj] at hi; exact Option.some.inj hi
            subst hee
            have hlen : j < w.envs.length := by
              rcases List.getElem?_eq_some_iff.mp hj with ⟨h, _⟩; exact h
            have := ihenv j (ej.exec1 w.lib op').1 (by simp [hlen])
            simp only [World.run, hexec, projectOps, projectOuts, if_true, soloRun]
            rw [← hA, ← hC]
            obtain ⟨t1, t2⟩ := this
            exact ⟨t1, congrArg _ t2⟩
          · have := ihenv i e (by simp [List.getElem?_set, hji, hi])
            simpa [World.run, hexec, projectOps, projectOuts, hji] using this

/-- in particular: two instances of one configuration with the same seed, interleaved arbitrarily
with each other, with a third environment and with foreign calls on the library generator, end in
the same state and produce the same outputs whenever they receive the same operations -/
theorem C02_same_seed_same_trace (ops : List WOp) (w : World) (hs : w.Seeded) (i j : Nat) (e : EnvInst)
    (hi : w.envs[i]? = some e) (hj : w.envs[j]? = some e) (hsame : projectOps i ops = projectOps j ops) :
    (World.run w ops).1.envs[i]? = (World.run w ops).1.envs[j]? ∧
    projectOuts i ops (World.run w ops).2 = projectOuts j ops (World.run w ops).2 := by
  obtain ⟨_, h⟩ := C02_isolation ops w hs ⟨[], []⟩
  obtain ⟨a1, a2⟩ := h i e hi
  obtain ⟨b1, b2⟩ := h j e hj
  rw [a1, a2, b1, b2, hsame]
  exact ⟨rfl, rfl⟩

/-! ### rewards and termination cannot draw -/

/-- `functional_step` hands no generator to the reward and termination functions; in the model they
have no access to the draw state at all: the generator after a step is the one the transition chain
left -/
theorem C02_reward_term_drawless (e : EnvSpec) (s : State) (a : Action) (d : DrawSt) (r : StepResult)
    (h : e.functionalStep s a d = .ok r) : ∃ s', runChain e.trans s a d = .ok (s', r.d) ∧ r.next = s' := by
  unfold EnvSpec.functionalStep at h
  split at h
  · cases h
  · split at h
    · cases h
    · cases hc : runChain e.trans s a d with
      | error err => rw [hc] at h; cases h
      | ok p =>
        obtain ⟨s', d'⟩ := p
        rw [hc] at h
        simp only at h
        split at h
        · cases h
        · cases hr : rewParts e.rewards s a s' with
          | error err => rw [hr] at h; cases h
          | ok ts =>
            rw [hr] at h
            simp only at h
            cases ht : e.term.eval s a s' with
            | error err => rw [ht] at h; cases h
            | ok b =>
              rw [ht] at h
              simp only [Except.ok.injEq] at h
              subst h
              exact ⟨s', rfl, rfl⟩

/-! ### the debug flag does not change trajectories of conforming states -/

theorem C02_debug_irrelevant (e : EnvSpec) (deep : Bool) (hpre : ChainPre e.stateSpace deep e.trans)
    (s : State) (a : Action) (d : DrawSt) (c : Conf e.stateSpace deep s) :
    ({ e with debug := true }).functionalStep s a d = ({ e with debug := false }).functionalStep s a d := by
  obtain ⟨s', d', hrun, c'⟩ := C01_trans_closed e.stateSpace deep e.trans hpre s a d c
  simp [EnvSpec.functionalStep, c.contains, c'.contains, hrun]

theorem C02_debug_irrelevant_reset (e : EnvSpec) (deep : Bool) (d : DrawSt)
    (hreset : ∀ s d', e.reset d = .ok (s, d') → Conf e.stateSpace deep s) :
    ({ e with debug := true }).functionalReset d = ({ e with debug := false }).functionalReset d := by
  unfold EnvSpec.functionalReset
  cases hr : e.reset d with
  | error err => rfl
  | ok p =>
    obtain ⟨s, d'⟩ := p
    simp [(hreset s d' hr).contains]

/-! ### the enumeration order of a colour set is irrelevant -/

theorem C02_iteration_order_irrelevant (l l' : List Color) (h : ∀ c, c ∈ l ↔ c ∈ l') :
    sortColors l = sortColors l' := by
  unfold sortColors
  apply List.filter_congr
  intro c _
  rw [Bool.eq_iff_iff]
  simp [h c]

/-- so `memory` / `memory_rooms`, which consume the sorted colour list, produce the same state for
the same stream whatever order the set was enumerated in -/
theorem C02_memory_order_irrelevant (sh : Shape) (l l' : List Color) (h : ∀ c, c ∈ l ↔ c ∈ l') (d : DrawSt) :
    resetMemory sh (sortColors l) d = resetMemory sh (sortColors l') d := by
  rw [C02_iteration_order_irrelevant l l' h]

/-- before the repair the code consumed the set in iteration order: two enumerations of the same
set give different episodes for the same stream (findings/F6) -/
example :
    (resetMemory ⟨5, 5⟩ [.red, .green] ⟨[0, 0, 0, 0], []⟩).toOption.map (fun r => r.1.grid.at ⟨3, 1⟩) = some (.beacon .red) ∧
    (resetMemory ⟨5, 5⟩ [.green, .red] ⟨[0, 0, 0, 0], []⟩).toOption.map (fun r => r.1.grid.at ⟨3, 1⟩) = some (.beacon .green) := by
  decide

end GV
