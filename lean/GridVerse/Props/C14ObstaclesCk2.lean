/- kernel re-check of chunk 2 of the 7×7 two-obstacle certificates (see Props/C14Obstacles.lean) -/
import GridVerse.Lemmas.ObstacleCert
import GridVerse.Props.C14ObstaclesData
namespace GV

theorem certs7_ok_2 : Cert.obstacles7x7_2.all (certOK (room ⟨7, 7⟩)) = true := by decide +kernel

end GV
