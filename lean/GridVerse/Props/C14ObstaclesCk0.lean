/- kernel re-check of chunk 0 of the 7×7 two-obstacle certificates (see Props/C14Obstacles.lean) -/
import GridVerse.Lemmas.ObstacleCert
import GridVerse.Props.C14ObstaclesData
namespace GV

theorem certs7_ok_0 : Cert.obstacles7x7_0.all (certOK (room ⟨7, 7⟩)) = true := by decide +kernel

end GV
