/-
  `flat` (all cells) vs. pointwise lookup; positivity of counts.
-/
import GridVerse.Lemmas.Count
set_option linter.unusedSimpArgs false
namespace GV

theorem Grid.mem_flat_iff (g : Grid) (hg : g.WF) (o : Obj) :
    o ∈ g.flat ↔ ∃ q, g.contains q = true ∧ g.at q = o := by
  obtain ⟨hl, hr⟩ := hg
  constructor
  · intro h
    simp only [Grid.flat, List.mem_flatten] at h
    obtain ⟨row, hrow, ho⟩ := h
    obtain ⟨i, hi, rfl⟩ := List.getElem_of_mem hrow
    obtain ⟨j, hj, rfl⟩ := List.getElem_of_mem ho
    have hw := hr _ (List.getElem_mem hi)
    refine ⟨⟨(i : Int), (j : Int)⟩, ?_, ?_⟩
    · rw [Grid.contains_iff]; simp only; omega
    · have hc : g.contains ⟨(i : Int), (j : Int)⟩ = true := by rw [Grid.contains_iff]; simp only; omega
      rw [Grid.at_of_contains _ _ hc]
      simp [Grid.cell, hi, hj]
  · rintro ⟨q, hc, rfl⟩
    rw [Grid.at_of_contains _ _ hc]
    rw [Grid.contains_iff] at hc
    have hi : q.y.toNat < g.cells.length := by omega
    have hw := hr _ (List.getElem_mem hi)
    have hj : q.x.toNat < (g.cells[q.y.toNat]).length := by omega
    simp only [Grid.flat, List.mem_flatten]
    refine ⟨g.cells[q.y.toNat], List.getElem_mem hi, ?_⟩
    have : g.cell q.y.toNat q.x.toNat = (g.cells[q.y.toNat])[q.x.toNat] := by simp [Grid.cell, hi, hj]
    rw [this]; exact List.getElem_mem hj

theorem Grid.flat_all_iff (g : Grid) (hg : g.WF) (P : Obj → Bool) :
    g.flat.all P = true ↔ ∀ q, g.contains q = true → P (g.at q) = true := by
  rw [List.all_eq_true]
  constructor
  · intro h q hq
    exact h _ ((Grid.mem_flat_iff g hg _).mpr ⟨q, hq, rfl⟩)
  · intro h o ho
    obtain ⟨q, hq, rfl⟩ := (Grid.mem_flat_iff g hg o).mp ho
    exact h q hq

theorem Grid.count_pos_iff (g : Grid) (hg : g.WF) (p : Obj → Bool) :
    0 < g.count p ↔ ∃ q, g.contains q = true ∧ p (g.at q) = true := by
  unfold Grid.count
  constructor
  · intro h
    have : (g.flat.filter p) ≠ [] := by intro e; rw [e] at h; simp at h
    obtain ⟨o, ho⟩ := List.exists_mem_of_ne_nil _ this
    rw [List.mem_filter] at ho
    obtain ⟨q, hq, rfl⟩ := (Grid.mem_flat_iff g hg o).mp ho.1
    exact ⟨q, hq, ho.2⟩
  · rintro ⟨q, hq, hp⟩
    apply List.length_pos_of_mem (a := g.at q)
    rw [List.mem_filter]
    exact ⟨(Grid.mem_flat_iff g hg _).mpr ⟨q, hq, rfl⟩, hp⟩

end GV
