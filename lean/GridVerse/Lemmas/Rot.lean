/-
  Grid extensionality, rotations and counting.
-/
import GridVerse.Lemmas.Grid
set_option linter.unusedSimpArgs false
namespace GV

theorem Grid.tab_congr (h w : Nat) (f f' : Nat → Nat → Obj)
    (hf : ∀ i j, i < h → j < w → f i j = f' i j) : Grid.tab h w f = Grid.tab h w f' := by
  unfold Grid.tab
  congr 1
  apply List.map_congr_left
  intro i hi
  apply List.map_congr_left
  intro j hj
  exact hf i j (List.mem_range.mp hi) (List.mem_range.mp hj)

/-- a well-formed grid is the table of its cells -/
theorem Grid.eq_tab (g : Grid) (hg : g.WF) : g = Grid.tab g.h g.w g.cell := by
  obtain ⟨hl, hr⟩ := hg
  obtain ⟨h, w, cells⟩ := g
  simp only [Grid.tab, Grid.mk.injEq, true_and]
  simp only at hl hr
  apply List.ext_getElem
  · simp [hl]
  · intro i h1 h2
    simp only [List.getElem_map, List.getElem_range]
    have hrow := hr _ (List.getElem_mem h1)
    apply List.ext_getElem
    · simp [hrow]
    · intro j h3 h4
      simp [Grid.cell, h1, h3]

theorem Grid.ext_cells (g g' : Grid) (hg : g.WF) (hg' : g'.WF) (hh : g.h = g'.h) (hw : g.w = g'.w)
    (hc : ∀ i j, i < g.h → j < g.w → g.cell i j = g'.cell i j) : g = g' := by
  rw [Grid.eq_tab g hg, Grid.eq_tab g' hg', ← hh, ← hw]
  exact Grid.tab_congr _ _ _ _ hc

/-- index map of a rotation: cell `(i, j)` of `rot o g` is cell `rotIdx o g i j` of `g` -/
def Grid.rotIdx : Orient → Grid → Nat → Nat → Nat × Nat
  | .F, _, i, j => (i, j)
  | .R, g, i, j => (j, g.w - 1 - i)
  | .B, g, i, j => (g.h - 1 - i, g.w - 1 - j)
  | .L, g, i, j => (g.h - 1 - j, i)

theorem Grid.rot_WF (o : Orient) (g : Grid) (hg : g.WF) : (Grid.rot o g).WF := by
  cases o
  · exact hg
  all_goals exact Grid.tab_WF _ _ _

theorem Grid.rot_cell (o : Orient) (g : Grid) (i j : Nat) (hi : i < (Grid.rot o g).h)
    (hj : j < (Grid.rot o g).w) :
    (Grid.rot o g).cell i j = g.cell (Grid.rotIdx o g i j).1 (Grid.rotIdx o g i j).2 := by
  cases o
  · rfl
  all_goals
    simp only [Grid.rot, Grid.tab_h, Grid.tab_w] at hi hj
    simp [Grid.rot, Grid.rotIdx, hi, hj]

theorem Grid.rotIdx_bijective (o : Orient) (g : Grid) :
    (∀ i j, i < (Grid.rot o g).h → j < (Grid.rot o g).w →
      (Grid.rotIdx o g i j).1 < g.h ∧ (Grid.rotIdx o g i j).2 < g.w) ∧
    (∀ i j i' j', i < (Grid.rot o g).h → j < (Grid.rot o g).w → i' < (Grid.rot o g).h →
      j' < (Grid.rot o g).w → Grid.rotIdx o g i j = Grid.rotIdx o g i' j' → i = i' ∧ j = j') ∧
    (∀ y x, y < g.h → x < g.w → ∃ i j, i < (Grid.rot o g).h ∧ j < (Grid.rot o g).w ∧
      Grid.rotIdx o g i j = (y, x)) := by
  cases o
  · refine ⟨fun i j hi hj => ⟨hi, hj⟩, ?_, fun y x hy hx => ⟨y, x, hy, hx, rfl⟩⟩
    intro i j i' j' _ _ _ _ h
    simpa [Grid.rotIdx] using h
  · -- B
    refine ⟨?_, ?_, ?_⟩
    · intro i j hi hj; simp only [Grid.rot, Grid.tab_h, Grid.tab_w] at hi hj
      simp only [Grid.rotIdx]; omega
    · intro i j i' j' hi hj hi' hj' h
      simp only [Grid.rot, Grid.tab_h, Grid.tab_w] at hi hj hi' hj'
      simp only [Grid.rotIdx, Prod.mk.injEq] at h; omega
    · intro y x hy hx
      refine ⟨g.h - 1 - y, g.w - 1 - x, ?_, ?_, ?_⟩
      · simp only [Grid.rot, Grid.tab_h]; omega
      · simp only [Grid.rot, Grid.tab_w]; omega
      · simp only [Grid.rotIdx, Prod.mk.injEq, and_true, true_and]; omega
  · -- L
    refine ⟨?_, ?_, ?_⟩
    · intro i j hi hj; simp only [Grid.rot, Grid.tab_h, Grid.tab_w] at hi hj
      simp only [Grid.rotIdx]; omega
    · intro i j i' j' hi hj hi' hj' h
      simp only [Grid.rot, Grid.tab_h, Grid.tab_w] at hi hj hi' hj'
      simp only [Grid.rotIdx, Prod.mk.injEq] at h; omega
    · intro y x hy hx
      refine ⟨x, g.h - 1 - y, ?_, ?_, ?_⟩
      · simp only [Grid.rot, Grid.tab_h]; omega
      · simp only [Grid.rot, Grid.tab_w]; omega
      · simp only [Grid.rotIdx, Prod.mk.injEq, and_true, true_and]; omega
  · -- R
    refine ⟨?_, ?_, ?_⟩
    · intro i j hi hj; simp only [Grid.rot, Grid.tab_h, Grid.tab_w] at hi hj
      simp only [Grid.rotIdx]; omega
    · intro i j i' j' hi hj hi' hj' h
      simp only [Grid.rot, Grid.tab_h, Grid.tab_w] at hi hj hi' hj'
      simp only [Grid.rotIdx, Prod.mk.injEq] at h; omega
    · intro y x hy hx
      refine ⟨g.w - 1 - x, y, ?_, ?_, ?_⟩
      · simp only [Grid.rot, Grid.tab_h]; omega
      · simp only [Grid.rot, Grid.tab_w]; omega
      · simp only [Grid.rotIdx, Prod.mk.injEq, and_true, true_and]; omega

theorem Grid.rot_neg_rot (o : Orient) (g : Grid) (hg : g.WF) : Grid.rot o.neg (Grid.rot o g) = g := by
  cases o
  · rfl
  · -- B
    apply Grid.ext_cells _ _ (Grid.rot_WF _ _ (Grid.rot_WF _ _ hg)) hg rfl rfl
    intro i j hi hj
    simp only [Orient.neg, Grid.rot, Grid.tab_h, Grid.tab_w] at hi hj ⊢
    rw [Grid.cell_tab _ _ _ _ _ hi hj, Grid.cell_tab _ _ _ _ _ (by omega) (by omega)]
    congr 1 <;> omega
  · -- L, neg = R
    apply Grid.ext_cells _ _ (Grid.rot_WF _ _ (Grid.rot_WF _ _ hg)) hg rfl rfl
    intro i j hi hj
    simp only [Orient.neg, Grid.rot, Grid.tab_h, Grid.tab_w] at hi hj ⊢
    rw [Grid.cell_tab _ _ _ _ _ hi hj, Grid.cell_tab _ _ _ _ _ (by omega) (by omega)]
    congr 1; omega
  · -- R, neg = L
    apply Grid.ext_cells _ _ (Grid.rot_WF _ _ (Grid.rot_WF _ _ hg)) hg rfl rfl
    intro i j hi hj
    simp only [Orient.neg, Grid.rot, Grid.tab_h, Grid.tab_w] at hi hj ⊢
    rw [Grid.cell_tab _ _ _ _ _ hi hj, Grid.cell_tab _ _ _ _ _ (by omega) (by omega)]
    congr 1; omega

/-! ### counting as a double sum -/

def sumTo : Nat → (Nat → Nat) → Nat
  | 0, _ => 0
  | n+1, f => sumTo n f + f n

theorem sumTo_congr (n : Nat) (f g : Nat → Nat) (h : ∀ i, i < n → f i = g i) : sumTo n f = sumTo n g := by
  induction n with
  | zero => rfl
  | succ n ih =>
    simp only [sumTo]
    rw [ih (fun i hi => h i (by omega)), h n (by omega)]

theorem sumTo_shift (n : Nat) (f : Nat → Nat) : sumTo (n+1) f = f 0 + sumTo n (fun i => f (i+1)) := by
  induction n with
  | zero => simp [sumTo]
  | succ n ih =>
    rw [sumTo, ih]
    simp only [sumTo]; omega

theorem sumTo_rev (n : Nat) (f : Nat → Nat) : sumTo n (fun i => f (n - 1 - i)) = sumTo n f := by
  induction n generalizing f with
  | zero => rfl
  | succ n ih =>
    rw [sumTo_shift]
    simp only [sumTo]
    have : sumTo n (fun i => f (n + 1 - 1 - (i + 1))) = sumTo n (fun i => f (n - 1 - i)) := by
      apply sumTo_congr; intro i hi; congr 1; omega
    rw [this, ih]
    simp; omega

theorem sumTo_add (n : Nat) (f g : Nat → Nat) : sumTo n (fun i => f i + g i) = sumTo n f + sumTo n g := by
  induction n with
  | zero => rfl
  | succ n ih => simp only [sumTo, ih]; omega

theorem sumTo_swap (h w : Nat) (f : Nat → Nat → Nat) :
    sumTo h (fun i => sumTo w (fun j => f i j)) = sumTo w (fun j => sumTo h (fun i => f i j)) := by
  induction h with
  | zero =>
    simp only [sumTo]
    induction w with
    | zero => rfl
    | succ w ih => simp only [sumTo]; omega
  | succ h ih =>
    simp only [sumTo]
    rw [ih, ← sumTo_add]

theorem length_filter_map_range (w : Nat) (f : Nat → Obj) (p : Obj → Bool) :
    (((List.range w).map f).filter p).length = sumTo w (fun j => if p (f j) then 1 else 0) := by
  induction w with
  | zero => rfl
  | succ w ih =>
    rw [List.range_succ, List.map_append, List.filter_append, List.length_append, ih]
    simp only [sumTo, List.map_cons, List.map_nil]
    cases hp : p (f w) <;> simp [List.filter, hp]

theorem Grid.count_tab (h w : Nat) (f : Nat → Nat → Obj) (p : Obj → Bool) :
    (Grid.tab h w f).count p = sumTo h (fun i => sumTo w (fun j => if p (f i j) then 1 else 0)) := by
  unfold Grid.count Grid.flat Grid.tab
  simp only
  induction h with
  | zero => rfl
  | succ h ih =>
    rw [List.range_succ, List.map_append, List.flatten_append, List.filter_append,
      List.length_append, ih]
    simp only [sumTo, List.map_cons, List.map_nil, List.flatten_cons, List.flatten_nil,
      List.append_nil]
    rw [length_filter_map_range]

theorem Grid.count_eq_sum (g : Grid) (hg : g.WF) (p : Obj → Bool) :
    g.count p = sumTo g.h (fun i => sumTo g.w (fun j => if p (g.cell i j) then 1 else 0)) := by
  conv => lhs; rw [Grid.eq_tab g hg]
  exact Grid.count_tab _ _ _ _

theorem Grid.rot_count (o : Orient) (g : Grid) (hg : g.WF) (p : Obj → Bool) :
    (Grid.rot o g).count p = g.count p := by
  rw [Grid.count_eq_sum g hg]
  cases o
  · exact Grid.count_eq_sum g hg p
  · -- B
    simp only [Grid.rot]
    rw [Grid.count_tab]
    rw [← sumTo_rev g.h (fun i => sumTo g.w (fun j => if p (g.cell i j) then 1 else 0))]
    apply sumTo_congr; intro i _
    exact (sumTo_rev g.w (fun j => if p (g.cell (g.h - 1 - i) j) then 1 else 0))
  · -- L : tab w h (i j ↦ cell (h-1-j) i)
    simp only [Grid.rot]
    rw [Grid.count_tab]
    rw [sumTo_swap g.h g.w]
    apply sumTo_congr; intro i _
    exact (sumTo_rev g.h (fun j => if p (g.cell j i) then 1 else 0))
  · -- R : tab w h (i j ↦ cell j (w-1-i))
    simp only [Grid.rot]
    rw [Grid.count_tab]
    rw [sumTo_swap g.h g.w]
    exact (sumTo_rev g.w (fun i => sumTo g.h (fun j => if p (g.cell j i) then 1 else 0)))

end GV
