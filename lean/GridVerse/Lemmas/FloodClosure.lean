/-
  The flood fill computes exactly the cells reachable from the origin through transparent cells
  (given enough fuel for the recursion depth): closure under `next`, soundness, completeness,
  monotonicity.
-/
import GridVerse.Lemmas.Flood
set_option linter.unusedSimpArgs false
namespace GV

/-- reachable from the origin through in-grid cells, every cell before the last transparent -/
inductive Reach (opq inGrid : Pos → Bool) (next : Pos → List Pos) (origin : Pos) : Pos → Prop
  | origin : inGrid origin = true → Reach opq inGrid next origin origin
  | step (parent q : Pos) : Reach opq inGrid next origin parent → opq parent = false →
      q ∈ next parent → inGrid q = true → Reach opq inGrid next origin q

theorem Reach.inGrid {opq inGrid next origin q} (h : Reach opq inGrid next origin q) :
    inGrid q = true := by
  cases h with
  | origin h => exact h
  | step _ _ _ _ _ h => exact h

/-- fewer opaque cells, more reachable cells -/
theorem Reach.mono {opq opq' inGrid next origin q} (hle : ∀ c, opq' c = true → opq c = true)
    (h : Reach opq inGrid next origin q) : Reach opq' inGrid next origin q := by
  induction h with
  | origin h => exact Reach.origin h
  | step parent q _ ho hq hin ih =>
    refine Reach.step parent q ih ?_ hq hin
    cases h' : opq' parent
    · rfl
    · rw [hle parent h'] at ho; cases ho

/-- new cells of `new` are closed: a new transparent cell has all its in-grid successors in `new` -/
def ClosedNew (opq inGrid : Pos → Bool) (next : Pos → List Pos) (old new : List Pos) : Prop :=
  ∀ c ∈ new, c ∉ old → opq c = false → ∀ n ∈ next c, inGrid n = true → n ∈ new

theorem mkVis_closed (opq inGrid : Pos → Bool) (next : Pos → List Pos) (μ : Pos → Nat)
    (hμ : ∀ p n, inGrid p = true → n ∈ next p → inGrid n = true → μ n < μ p)
    (fuel : Nat) (vis : List Pos) (p : Pos) (hf : inGrid p = true → μ p < fuel) :
    (inGrid p = true → p ∈ mkVis opq inGrid next fuel vis p) ∧
    ClosedNew opq inGrid next vis (mkVis opq inGrid next fuel vis p) := by
  induction fuel generalizing vis p with
  | zero =>
    have hp : inGrid p = false := by
      cases h : inGrid p
      · rfl
      · exact absurd (hf h) (Nat.not_lt_zero _)
    refine ⟨fun h => ?_, ?_⟩
    · rw [hp] at h; cases h
    intro c hc hnc
    exact absurd (by simpa [mkVis] using hc) hnc
  | succ n ih =>
    unfold mkVis
    by_cases hc : (inGrid p && !(vis.contains p)) = true
    · simp only [hc, if_true]
      have hin : inGrid p = true := by simp only [Bool.and_eq_true] at hc; exact hc.1
      have hpv : p ∉ vis := by
        simp only [Bool.and_eq_true, Bool.not_eq_true', List.contains_eq_mem,
          decide_eq_false_iff_not] at hc
        exact hc.2
      by_cases ho : opq p = true
      · simp only [ho, Bool.not_true, if_false]
        refine ⟨fun _ => by simp, ?_⟩
        intro c hc' hnc hoc
        rcases List.mem_cons.mp hc' with rfl | h
        · rw [ho] at hoc; cases hoc
        · exact absurd h hnc
      · have ho' : opq p = false := by simpa using ho
        simp only [ho', Bool.not_false, if_true]
        -- the fold over the children
        have hchild : ∀ a ∈ next p, inGrid a = true → μ a < n := by
          intro a ha hia
          have := hμ p a hin ha hia
          have := hf hin
          omega
        have fold : ∀ (l : List Pos) (v0 : List Pos), (∀ a ∈ l, inGrid a = true → μ a < n) →
            v0 ⊆ l.foldl (mkVis opq inGrid next n) v0 ∧
            (∀ a ∈ l, inGrid a = true → a ∈ l.foldl (mkVis opq inGrid next n) v0) ∧
            ClosedNew opq inGrid next v0 (l.foldl (mkVis opq inGrid next n) v0) := by
          intro l
          induction l with
          | nil =>
            intro v0 _
            exact ⟨fun _ h => h, fun a ha => by simp at ha, fun c hc' hnc => absurd hc' hnc⟩
          | cons a l ihl =>
            intro v0 hl
            simp only [List.foldl_cons]
            obtain ⟨ha1, ha2⟩ := ih v0 a (fun h => hl a (by simp) h)
            obtain ⟨hs, hm, hcl⟩ := ihl (mkVis opq inGrid next n v0 a) (fun b hb => hl b (by simp [hb]))
            refine ⟨fun x hx => hs (mkVis_mono opq inGrid next n v0 a hx), ?_, ?_⟩
            · intro b hb hib
              rcases List.mem_cons.mp hb with rfl | hb
              · exact hs (ha1 hib)
              · exact hm b hb hib
            · intro c hc' hnc hoc nx hnx hinx
              by_cases hcv : c ∈ mkVis opq inGrid next n v0 a
              · exact hs (ha2 c hcv hnc hoc nx hnx hinx)
              · exact hcl c hc' hcv hoc nx hnx hinx
        obtain ⟨hs, hm, hcl⟩ := fold (next p) (p :: vis) hchild
        refine ⟨fun _ => hs (by simp), ?_⟩
        intro c hc' hnc hoc nx hnx hinx
        by_cases hcp : c = p
        · subst hcp; exact hm nx hnx hinx
        · exact hcl c hc' (by simp [hcp, hnc]) hoc nx hnx hinx
    · have hc' : (inGrid p && !(vis.contains p)) = false := by simpa using hc
      simp only [hc', Bool.false_eq_true, if_false]
      refine ⟨?_, fun c hcm hnc => absurd hcm hnc⟩
      intro hin
      simp only [hin, Bool.true_and, Bool.not_eq_false', List.contains_eq_mem,
        decide_eq_true_eq] at hc'
      exact hc'

/-- completeness: with enough fuel everything reachable is marked -/
theorem mkVis_complete (opq inGrid : Pos → Bool) (next : Pos → List Pos) (μ : Pos → Nat)
    (hμ : ∀ p n, inGrid p = true → n ∈ next p → inGrid n = true → μ n < μ p)
    (fuel : Nat) (origin : Pos) (hf : inGrid origin = true → μ origin < fuel) (q : Pos)
    (h : Reach opq inGrid next origin q) : q ∈ mkVis opq inGrid next fuel [] origin := by
  obtain ⟨h1, h2⟩ := mkVis_closed opq inGrid next μ hμ fuel [] origin hf
  induction h with
  | origin hin => exact h1 hin
  | step parent q _ ho hq hin ih => exact h2 parent ih (by simp) ho q hq hin

/-- soundness: everything marked is reachable -/
theorem mkVis_sound (opq inGrid : Pos → Bool) (next : Pos → List Pos) (fuel : Nat) (origin : Pos)
    (q : Pos) (h : q ∈ mkVis opq inGrid next fuel [] origin) : Reach opq inGrid next origin q := by
  have hin : ∀ c ∈ mkVis opq inGrid next fuel [] origin, inGrid c = true :=
    mkVis_inGrid opq inGrid next fuel [] origin (by simp)
  have hl := mkVis_linked opq inGrid next origin fuel [] origin _ (fun _ h => h) Linked.origin
    (by simp) q h
  have key : ∀ c, Linked opq next origin (mkVis opq inGrid next fuel [] origin) c → inGrid c = true →
      Reach opq inGrid next origin c := by
    intro c hc
    induction hc with
    | origin => exact fun h => Reach.origin h
    | step parent c _ hpm ho hcn ih => exact fun hic => Reach.step parent c (ih (hin parent hpm)) ho hcn hic
  exact key q hl (hin q h)

/-- making cells transparent never un-marks a cell -/
theorem mkVis_monotone (opq opq' inGrid : Pos → Bool) (next : Pos → List Pos) (μ : Pos → Nat)
    (hμ : ∀ p n, inGrid p = true → n ∈ next p → inGrid n = true → μ n < μ p)
    (fuel : Nat) (origin : Pos) (hf : inGrid origin = true → μ origin < fuel)
    (hle : ∀ c, opq' c = true → opq c = true) (q : Pos)
    (h : q ∈ mkVis opq inGrid next fuel [] origin) : q ∈ mkVis opq' inGrid next fuel [] origin :=
  mkVis_complete opq' inGrid next μ hμ fuel origin hf q
    (Reach.mono hle (mkVis_sound opq inGrid next fuel origin q h))

/-! ### the two instances used by `partially_occluded` -/

def muLeft (p : Pos) : Nat := (p.y + p.x + 1).toNat
def muRight (g : Grid) (p : Pos) : Nat := (p.y + ((g.w : Int) - 1 - p.x) + 1).toNat

theorem muLeft_dec (g : Grid) : ∀ p n, g.contains p = true → n ∈ poNextLeft p → g.contains n = true →
    muLeft n < muLeft p := by
  intro p n hp hn hn'
  rw [Grid.contains] at hp hn'
  simp only [Bool.and_eq_true, decide_eq_true_eq] at hp hn'
  simp only [poNextLeft, List.mem_cons, List.not_mem_nil, or_false] at hn
  rcases hn with rfl | rfl | rfl <;> simp only [muLeft] at * <;> omega

theorem muRight_dec (g : Grid) : ∀ p n, g.contains p = true → n ∈ poNextRight p → g.contains n = true →
    muRight g n < muRight g p := by
  intro p n hp hn hn'
  rw [Grid.contains] at hp hn'
  simp only [Bool.and_eq_true, decide_eq_true_eq] at hp hn'
  simp only [poNextRight, List.mem_cons, List.not_mem_nil, or_false] at hn
  rcases hn with rfl | rfl | rfl <;> simp only [muRight] at * <;> omega

theorem muLeft_fuel (g : Grid) (p : Pos) (hp : g.contains p = true) : muLeft p < floodFuel g := by
  rw [Grid.contains] at hp
  simp only [Bool.and_eq_true, decide_eq_true_eq] at hp
  simp only [muLeft, floodFuel]; omega

theorem muRight_fuel (g : Grid) (p : Pos) (hp : g.contains p = true) : muRight g p < floodFuel g := by
  rw [Grid.contains] at hp
  simp only [Bool.and_eq_true, decide_eq_true_eq] at hp
  simp only [muRight, floodFuel]; omega

end GV
