/-
  Connectivity of non-blocking cells, and from connectivity to reachability of an exit under the
  plain move/turn dynamics.
-/
import GridVerse.Lemmas.Walk
import GridVerse.Props.C14
set_option linter.unusedSimpArgs false
namespace GV

/-- a cell the agent can stand on -/
def Free (g : Grid) (q : Pos) : Prop := g.contains q = true ∧ (g.at q).blocksMovement = false

/-- 4-neighbours -/
def Adj (p q : Pos) : Prop := ∃ dir : Orient, q = p.add (Pos.ofOrient dir)

theorem Adj.symm {p q : Pos} (h : Adj p q) : Adj q p := by
  obtain ⟨dir, rfl⟩ := h
  refine ⟨dir.mul .B, ?_⟩
  cases dir <;> (rw [Pos.ext_iff']; simp only [Pos.add, Pos.ofOrient, Orient.mul]; omega)

/-- `q` can be reached from `p` through free cells (`p` itself is not required to be free) -/
inductive Conn (g : Grid) : Pos → Pos → Prop
  | refl (p : Pos) : Conn g p p
  | step (p q r : Pos) : Adj p q → Free g q → Conn g q r → Conn g p r

theorem Conn.trans {g : Grid} {p q r : Pos} (a : Conn g p q) (b : Conn g q r) : Conn g p r := by
  induction a with
  | refl => exact b
  | step p q _ adj fr _ ih => exact .step p q _ adj fr (ih b)

theorem Conn.single {g : Grid} {p q : Pos} (adj : Adj p q) (fq : Free g q) : Conn g p q :=
  .step p q q adj fq (.refl q)

/-- reverse a path whose start is free too -/
theorem Conn.symm {g : Grid} {p q : Pos} (a : Conn g p q) (fp : Free g p) : Conn g q p := by
  induction a with
  | refl => exact .refl _
  | step p q r adj fr _ ih => exact (ih fr).trans (Conn.single adj.symm fp)

/-- the end of a non-trivial path is free -/
theorem Conn.free_end {g : Grid} {p q : Pos} (a : Conn g p q) (fp : Free g p) : Free g q := by
  induction a with
  | refl => exact fp
  | step p q r _ fr _ ih => exact ih fr

/-! ### straight lines and rectangles of free cells -/

theorem conn_vert (g : Grid) (x : Int) (n : Nat) (y : Int) (up : Bool)
    (h : ∀ k : Nat, 1 ≤ k → k ≤ n → Free g ⟨if up then y - k else y + k, x⟩) :
    Conn g ⟨y, x⟩ ⟨if up then y - n else y + n, x⟩ := by
  induction n generalizing y with
  | zero => simp; exact .refl _
  | succ n ih =>
    have f1 := h 1 (Nat.le_refl _) (by omega)
    have adj : Adj ⟨y, x⟩ ⟨if up then y - 1 else y + 1, x⟩ := by
      cases up
      · exact ⟨.B, by simp [Pos.add, Pos.ofOrient]⟩
      · exact ⟨.F, by simp [Pos.add, Pos.ofOrient]; omega⟩
    have rest := ih (if up then y - 1 else y + 1) (by
      intro k hk1 hk2
      have := h (k + 1) (by omega) (by omega)
      cases up
      · simp only [Bool.false_eq_true, if_false] at this ⊢
        have e : y + 1 + (k : Int) = y + ((k + 1 : Nat) : Int) := by push_cast; omega
        rw [e]; exact this
      · simp only [if_true] at this ⊢
        have e : y - 1 - (k : Int) = y - ((k + 1 : Nat) : Int) := by push_cast; omega
        rw [e]; exact this)
    refine .step _ _ _ adj (by simpa using f1) ?_
    have e : (if up then (if up then y - 1 else y + 1) - (n : Int) else (if up then y - 1 else y + 1) + (n : Int)) =
        (if up then y - ((n + 1 : Nat) : Int) else y + ((n + 1 : Nat) : Int)) := by
      cases up <;> simp <;> omega
    rw [e] at rest
    exact rest

theorem conn_horiz (g : Grid) (y : Int) (n : Nat) (x : Int) (left : Bool)
    (h : ∀ k : Nat, 1 ≤ k → k ≤ n → Free g ⟨y, if left then x - k else x + k⟩) :
    Conn g ⟨y, x⟩ ⟨y, if left then x - n else x + n⟩ := by
  induction n generalizing x with
  | zero => simp; exact .refl _
  | succ n ih =>
    have f1 := h 1 (Nat.le_refl _) (by omega)
    have adj : Adj ⟨y, x⟩ ⟨y, if left then x - 1 else x + 1⟩ := by
      cases left
      · exact ⟨.R, by simp [Pos.add, Pos.ofOrient]⟩
      · exact ⟨.L, by simp [Pos.add, Pos.ofOrient]; omega⟩
    have rest := ih (if left then x - 1 else x + 1) (by
      intro k hk1 hk2
      have := h (k + 1) (by omega) (by omega)
      cases left
      · simp only [Bool.false_eq_true, if_false] at this ⊢
        have e : x + 1 + (k : Int) = x + ((k + 1 : Nat) : Int) := by push_cast; omega
        rw [e]; exact this
      · simp only [if_true] at this ⊢
        have e : x - 1 - (k : Int) = x - ((k + 1 : Nat) : Int) := by push_cast; omega
        rw [e]; exact this)
    refine .step _ _ _ adj (by simpa using f1) ?_
    have e : (if left then (if left then x - 1 else x + 1) - (n : Int) else (if left then x - 1 else x + 1) + (n : Int)) =
        (if left then x - ((n + 1 : Nat) : Int) else x + ((n + 1 : Nat) : Int)) := by
      cases left <;> simp <;> omega
    rw [e] at rest
    exact rest

/-- two cells of a rectangle of free cells are connected -/
theorem conn_rect (g : Grid) (y0 y1 x0 x1 : Int)
    (hfree : ∀ q : Pos, y0 ≤ q.y → q.y ≤ y1 → x0 ≤ q.x → q.x ≤ x1 → Free g q)
    (p q : Pos) (hp : y0 ≤ p.y ∧ p.y ≤ y1 ∧ x0 ≤ p.x ∧ p.x ≤ x1) (hq : y0 ≤ q.y ∧ q.y ≤ y1 ∧ x0 ≤ q.x ∧ q.x ≤ x1) :
    Conn g p q := by
  obtain ⟨py, px⟩ := p
  obtain ⟨qy, qx⟩ := q
  simp only at hp hq
  -- along the column to the row of `q`, then along that row
  have v : Conn g ⟨py, px⟩ ⟨qy, px⟩ := by
    by_cases h : qy ≤ py
    · have := conn_vert g px (py - qy).toNat py true (by
        intro k hk1 hk2
        simp only [if_true]
        exact hfree _ (by simp only; omega) (by simp only; omega) (by simp only; omega) (by simp only; omega))
      simp only [if_true] at this
      have e : py - ((py - qy).toNat : Int) = qy := by omega
      rw [e] at this; exact this
    · have := conn_vert g px (qy - py).toNat py false (by
        intro k hk1 hk2
        simp only [Bool.false_eq_true, if_false]
        exact hfree _ (by simp only; omega) (by simp only; omega) (by simp only; omega) (by simp only; omega))
      simp only [Bool.false_eq_true, if_false] at this
      have e : py + ((qy - py).toNat : Int) = qy := by omega
      rw [e] at this; exact this
  have hz : Conn g ⟨qy, px⟩ ⟨qy, qx⟩ := by
    by_cases h : qx ≤ px
    · have := conn_horiz g qy (px - qx).toNat px true (by
        intro k hk1 hk2
        simp only [if_true]
        exact hfree _ (by simp only; omega) (by simp only; omega) (by simp only; omega) (by simp only; omega))
      simp only [if_true] at this
      have e : px - ((px - qx).toNat : Int) = qx := by omega
      rw [e] at this; exact this
    · have := conn_horiz g qy (qx - px).toNat px false (by
        intro k hk1 hk2
        simp only [Bool.false_eq_true, if_false]
        exact hfree _ (by simp only; omega) (by simp only; omega) (by simp only; omega) (by simp only; omega))
      simp only [Bool.false_eq_true, if_false] at this
      have e : px + ((qx - px).toNat : Int) = qx := by omega
      rw [e] at this; exact this
  exact v.trans hz

/-! ### from a path to a winning run -/

/-- under `move_agent :: rest` with a plain rest and `reach_exit` termination: if the exit cell `e`
is connected to the agent's cell through free cells, the exit can be reached -/
theorem conn_reaches (rest : List TransAtom) (pr : PlainRest rest) (g : Grid) (wf : g.WF) (e : Pos)
    (he : (g.at e).isKind .exit = true) (p : Pos) (c : Conn g p e) (hpe : p ≠ e ∨ g.contains p = true) :
    ∀ (o : Orient) (held : Obj), Reaches (.moveAgent :: rest) (stopOf .reachExit) goalExit ⟨g, ⟨p, o, held⟩⟩ := by
  induction c with
  | refl p =>
    intro o held
    rcases hpe with h | h
    · exact absurd rfl h
    · exact .here _ (by simp only [goalExit, h, he, Bool.and_self])
  | step p q r adj fr _ ih =>
    intro o held
    obtain ⟨dir, rfl⟩ := adj
    have hrun := step_toward rest ⟨g, ⟨p, o, held⟩⟩ dir ⟨[], []⟩ fr.1 fr.2 (pr.quiet _)
    by_cases hx : (g.at (p.add (Pos.ofOrient dir))).isKind .exit = true
    · -- stepping onto an exit: the goal
      refine .step _ _ _ _ _ hrun (Or.inl ?_) (.here _ ?_)
      · simp only [goalExit, withPos_grid, withPos_pos, fr.1, hx, Bool.and_self]
      · simp only [goalExit, withPos_grid, withPos_pos, fr.1, hx, Bool.and_self]
    · refine .step _ _ _ _ _ hrun (Or.inr ?_) (ih he (Or.inr fr.1) o held)
      apply stop_false_of_not_exit _ _ _ wf fr.1
      simpa using hx

end GV
