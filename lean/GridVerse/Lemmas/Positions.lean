/-
  `grid.area.positions()`: membership and distinctness.
-/
import GridVerse.Lemmas.Grid
set_option linter.unusedSimpArgs false
namespace GV

theorem Grid.mem_positions (g : Grid) (p : Pos) : p ∈ g.positions ↔ g.contains p = true := by
  rw [Grid.contains_iff]
  simp only [Grid.positions, List.mem_flatMap, List.mem_map, List.mem_range]
  constructor
  · rintro ⟨i, hi, j, hj, rfl⟩
    simp only
    omega
  · rintro ⟨h1, h2, h3, h4⟩
    refine ⟨p.y.toNat, by omega, p.x.toNat, by omega, ?_⟩
    rw [Pos.ext_iff']
    simp only
    omega

theorem Grid.positions_nodup (g : Grid) : g.positions.Nodup := by
  unfold Grid.positions List.Nodup
  rw [List.pairwise_flatMap]
  constructor
  · intro i _
    rw [List.pairwise_map]
    have := @List.nodup_range g.w
    unfold List.Nodup at this
    apply List.Pairwise.imp _ this
    intro a b hab h
    apply hab
    have := congrArg Pos.x h
    simp only at this
    omega
  · have := @List.nodup_range g.h
    unfold List.Nodup at this
    apply List.Pairwise.imp _ this
    intro a b hab x hx y hy h
    simp only [List.mem_map, List.mem_range] at hx hy
    obtain ⟨j, _, rfl⟩ := hx
    obtain ⟨j', _, rfl⟩ := hy
    apply hab
    have := congrArg Pos.y h
    simp only at this
    omega

theorem Grid.mem_find (g : Grid) (f : Obj → Bool) (p : Pos) :
    p ∈ g.find f ↔ g.contains p = true ∧ f (g.at p) = true := by
  simp [Grid.find, Grid.mem_positions]

theorem Grid.find_nodup (g : Grid) (f : Obj → Bool) : (g.find f).Nodup :=
  List.Pairwise.filter _ (Grid.positions_nodup g)

end GV
