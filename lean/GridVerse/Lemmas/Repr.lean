/-
  Helper lemmas for the numeric representations.
-/
import GridVerse.Model.Repr
import GridVerse.Lemmas.Rot
set_option linter.unusedSimpArgs false
namespace GV

theorem foldl_max_ge_init (l : List Nat) (a : Nat) : a ≤ l.foldl max a := by
  induction l generalizing a with
  | nil => exact Nat.le_refl _
  | cons x xs ih => exact Nat.le_trans (Nat.le_max_left a x) (ih (max a x))

theorem foldl_max_mono (l : List Nat) (a b : Nat) (h : a ≤ b) : l.foldl max a ≤ l.foldl max b := by
  induction l generalizing a b with
  | nil => exact h
  | cons x xs ih =>
    apply ih
    simp only [Nat.max_def]
    split <;> split <;> omega

theorem le_maxOf (l : List Nat) (x : Nat) (h : x ∈ l) : x ≤ maxOf l := by
  unfold maxOf
  induction l with
  | nil => cases h
  | cons y ys ih =>
    simp only [List.foldl_cons]
    rcases List.mem_cons.mp h with rfl | h
    · exact Nat.le_trans (Nat.le_max_right 0 x) (foldl_max_ge_init ys _)
    · exact Nat.le_trans (ih h) (foldl_max_mono ys _ _ (Nat.le_max_left 0 y))

theorem stateIndex_lt_numStates (o : Obj) : o.stateIndex < o.kind.numStates := by
  cases o <;> simp [Obj.stateIndex, Obj.kind, Kind.numStates]
  rename_i s c; cases s <;> simp [DoorStatus.value]

/-- membership in the context bounds the three indices -/
theorem ReprCtx.bounds (c : ReprCtx) (o : Obj) (hk : o.kind ∈ c.kinds) (hc : o.color ∈ c.colors) :
    o.kind.typeIndex ≤ c.maxType ∧ o.stateIndex < c.maxState ∧ o.color.value ≤ c.maxColor := by
  refine ⟨le_maxOf _ _ (List.mem_map_of_mem hk), ?_, le_maxOf _ _ (List.mem_map_of_mem hc)⟩
  exact Nat.lt_of_lt_of_le (stateIndex_lt_numStates o) (le_maxOf _ _ (List.mem_map_of_mem hk))

theorem indexOf?_mem {α} [BEq α] [LawfulBEq α] (l : List α) (a : α) (h : a ∈ l) :
    ∃ i, indexOf? l a = some i ∧ i < l.length ∧ l[i]? = some a := by
  unfold indexOf?
  have hlt : l.findIdx (· == a) < l.length := List.findIdx_lt_length_of_exists ⟨a, h, by simp⟩
  refine ⟨l.findIdx (· == a), by simp [hlt], hlt, ?_⟩
  have := List.findIdx_getElem (w := hlt)
  simp only [beq_iff_eq] at this
  rw [List.getElem?_eq_getElem hlt, this]

theorem indexOf?_inj {α} [BEq α] [LawfulBEq α] (l : List α) (a b : α) (i : Nat)
    (ha : indexOf? l a = some i) (hb : indexOf? l b = some i) : a = b := by
  unfold indexOf? at ha hb
  simp only [] at ha hb
  by_cases h1 : l.findIdx (· == a) < l.length
  · by_cases h2 : l.findIdx (· == b) < l.length
    · simp only [h1, h2, if_true, Option.some.injEq] at ha hb
      have e1 := List.findIdx_getElem (w := h1)
      have e2 := List.findIdx_getElem (w := h2)
      simp only [beq_iff_eq] at e1 e2
      rw [← e1, ← e2]
      congr 1
      omega
    · simp [h2] at hb
  · simp [h1] at ha

theorem mem_sortedKinds (c : ReprCtx) (k : Kind) : k ∈ c.sortedKinds ↔ k ∈ c.kinds := by
  simp only [ReprCtx.sortedKinds, List.mem_filter, List.contains_eq_mem, decide_eq_true_eq]
  constructor
  · exact fun h => h.2
  · intro h; refine ⟨?_, h⟩; cases k <;> simp [Kind.all]

theorem mem_sortedColors (c : ReprCtx) (k : Color) : k ∈ c.sortedColors ↔ k ∈ c.colors := by
  simp only [ReprCtx.sortedColors, List.mem_filter, List.contains_eq_mem, decide_eq_true_eq]
  constructor
  · exact fun h => h.2
  · intro h; refine ⟨?_, h⟩; cases k <;> simp [Color.all]

theorem sum_takeWhile_add_le (l : List Kind) (k : Kind) (h : k ∈ l) :
    ((l.takeWhile fun x => x != k).map Kind.numStates).sum + k.numStates ≤ (l.map Kind.numStates).sum := by
  induction l with
  | nil => cases h
  | cons x xs ih =>
    by_cases hx : x = k
    · subst hx; simp [List.takeWhile]
    · have hmem : k ∈ xs := by
        rcases List.mem_cons.mp h with e | e
        · exact absurd e.symm hx
        · exact e
      have := ih hmem
      have hne : (x != k) = true := by simp [hx]
      simp only [List.takeWhile, hne, List.map_cons, List.sum_cons]
      omega

theorem mapE_ok {α β} (f : α → Except PyErr β) (P : α → β → Prop) (l : List α)
    (h : ∀ a ∈ l, ∃ b, f a = .ok b ∧ P a b) :
    ∃ bs, mapE f l = .ok bs ∧ bs.length = l.length ∧
      ∀ i (h1 : i < l.length) (h2 : i < bs.length), P l[i] bs[i] := by
  induction l with
  | nil => exact ⟨[], rfl, rfl, fun i h1 => absurd h1 (Nat.not_lt_zero _)⟩
  | cons a as ih =>
    obtain ⟨b, hb, hp⟩ := h a (by simp)
    obtain ⟨bs, hbs, hl, hi⟩ := ih (fun x hx => h x (by simp [hx]))
    refine ⟨b :: bs, by simp [mapE, hb, hbs], by simp [hl], ?_⟩
    intro i h1 h2
    cases i with
    | zero => simpa using hp
    | succ j => simpa using hi j (by simpa using h1) (by simpa using h2)

end GV
