/-
  Frame reasoning on the reference-level model.
-/
import GridVerse.Model.Heap
import GridVerse.Lemmas.Obstacles
set_option linter.unusedSimpArgs false
namespace GV

/-- the two heaps hold the same contents in every node below `n` -/
structure AgreeBelow (n : Nat) (h h' : Heap) : Prop where
  rows : ∀ r, r < n → h'.rowsOf r = h.rowsOf r
  cells : ∀ r, r < n → h'.cellsOf r = h.cellsOf r
  obj : ∀ r, r < n → h'.objOf r = h.objOf r
  tf : ∀ r, r < n → h'.tfOf r = h.tfOf r
  agent : ∀ r, r < n → h'.agentOf r = h.agentOf r

/-- a heap evolution that leaves everything below `n` alone: same contents there, every new
assignment at or above `n`, allocation pointer monotone -/
structure StepFrom (n : Nat) (h h' : Heap) : Prop where
  agree : AgreeBelow n h h'
  writes : ∀ r ∈ h'.writes, r ∈ h.writes ∨ n ≤ r
  next : h.next ≤ h'.next

theorem StepFrom.refl (n : Nat) (h : Heap) : StepFrom n h h :=
  ⟨⟨fun _ _ => rfl, fun _ _ => rfl, fun _ _ => rfl, fun _ _ => rfl, fun _ _ => rfl⟩,
   fun _ hr => Or.inl hr, Nat.le_refl _⟩

theorem StepFrom.trans {n : Nat} {h1 h2 h3 : Heap} (a : StepFrom n h1 h2) (b : StepFrom n h2 h3) :
    StepFrom n h1 h3 := by
  refine ⟨⟨?_, ?_, ?_, ?_, ?_⟩, ?_, Nat.le_trans a.next b.next⟩
  · intro r hr; rw [b.agree.rows r hr, a.agree.rows r hr]
  · intro r hr; rw [b.agree.cells r hr, a.agree.cells r hr]
  · intro r hr; rw [b.agree.obj r hr, a.agree.obj r hr]
  · intro r hr; rw [b.agree.tf r hr, a.agree.tf r hr]
  · intro r hr; rw [b.agree.agent r hr, a.agree.agent r hr]
  · intro r hr
    rcases b.writes r hr with h | h
    · exact a.writes r h
    · exact Or.inr h

theorem step_setCells (n : Nat) (h : Heap) (r : Ref) (cs : List Ref) (hr : n ≤ r) :
    StepFrom n h (h.setCells r cs) := by
  refine ⟨⟨fun _ _ => rfl, ?_, fun _ _ => rfl, fun _ _ => rfl, fun _ _ => rfl⟩, ?_, Nat.le_refl _⟩
  · intro x hx; simp only [Heap.setCells]; exact if_neg (by omega : ¬ x = r)
  · intro x hx
    simp only [Heap.setCells, List.mem_cons] at hx
    rcases hx with rfl | hx
    · exact Or.inr hr
    · exact Or.inl hx

theorem step_setObj (n : Nat) (h : Heap) (r : Ref) (o : HObj) (hr : n ≤ r) : StepFrom n h (h.setObj r o) := by
  refine ⟨⟨fun _ _ => rfl, fun _ _ => rfl, ?_, fun _ _ => rfl, fun _ _ => rfl⟩, ?_, Nat.le_refl _⟩
  · intro x hx; simp only [Heap.setObj]; exact if_neg (by omega : ¬ x = r)
  · intro x hx
    simp only [Heap.setObj, List.mem_cons] at hx
    rcases hx with rfl | hx
    · exact Or.inr hr
    · exact Or.inl hx

theorem step_setTf (n : Nat) (h : Heap) (r : Ref) (t : Transform) (hr : n ≤ r) : StepFrom n h (h.setTf r t) := by
  refine ⟨⟨fun _ _ => rfl, fun _ _ => rfl, fun _ _ => rfl, ?_, fun _ _ => rfl⟩, ?_, Nat.le_refl _⟩
  · intro x hx; simp only [Heap.setTf]; exact if_neg (by omega : ¬ x = r)
  · intro x hx
    simp only [Heap.setTf, List.mem_cons] at hx
    rcases hx with rfl | hx
    · exact Or.inr hr
    · exact Or.inl hx

theorem step_setAgent (n : Nat) (h : Heap) (r : Ref) (a : Ref × Ref) (hr : n ≤ r) :
    StepFrom n h (h.setAgent r a) := by
  refine ⟨⟨fun _ _ => rfl, fun _ _ => rfl, fun _ _ => rfl, fun _ _ => rfl, ?_⟩, ?_, Nat.le_refl _⟩
  · intro x hx; simp only [Heap.setAgent]; exact if_neg (by omega : ¬ x = r)
  · intro x hx
    simp only [Heap.setAgent, List.mem_cons] at hx
    rcases hx with rfl | hx
    · exact Or.inr hr
    · exact Or.inl hx

theorem step_newObj (n : Nat) (h : Heap) (o : HObj) (hn : n ≤ h.next) : StepFrom n h (h.newObj o).2 := by
  refine ⟨⟨fun _ _ => rfl, fun _ _ => rfl, ?_, fun _ _ => rfl, fun _ _ => rfl⟩, fun _ hr => Or.inl hr, Nat.le_succ _⟩
  intro x hx; exact if_neg (by omega : ¬ x = h.next)

theorem step_newCells (n : Nat) (h : Heap) (o : List Ref) (hn : n ≤ h.next) : StepFrom n h (h.newCells o).2 := by
  refine ⟨⟨fun _ _ => rfl, ?_, fun _ _ => rfl, fun _ _ => rfl, fun _ _ => rfl⟩, fun _ hr => Or.inl hr, Nat.le_succ _⟩
  intro x hx; exact if_neg (by omega : ¬ x = h.next)

theorem step_newRows (n : Nat) (h : Heap) (o : List Ref) (hn : n ≤ h.next) : StepFrom n h (h.newRows o).2 := by
  refine ⟨⟨?_, fun _ _ => rfl, fun _ _ => rfl, fun _ _ => rfl, fun _ _ => rfl⟩, fun _ hr => Or.inl hr, Nat.le_succ _⟩
  intro x hx; exact if_neg (by omega : ¬ x = h.next)

theorem step_newTf (n : Nat) (h : Heap) (o : Transform) (hn : n ≤ h.next) : StepFrom n h (h.newTf o).2 := by
  refine ⟨⟨fun _ _ => rfl, fun _ _ => rfl, fun _ _ => rfl, ?_, fun _ _ => rfl⟩, fun _ hr => Or.inl hr, Nat.le_succ _⟩
  intro x hx; exact if_neg (by omega : ¬ x = h.next)

theorem step_newAgent (n : Nat) (h : Heap) (o : Ref × Ref) (hn : n ≤ h.next) : StepFrom n h (h.newAgent o).2 := by
  refine ⟨⟨fun _ _ => rfl, fun _ _ => rfl, fun _ _ => rfl, fun _ _ => rfl, ?_⟩, fun _ hr => Or.inl hr, Nat.le_succ _⟩
  intro x hx; exact if_neg (by omega : ¬ x = h.next)

/-! ### the invariant carried by a state all of whose nodes live at or above `n` -/

structure OwnedFrom (n : Nat) (hp : Heap) (s : HState) : Prop where
  le : n ≤ hp.next
  agent : n ≤ s.agent
  rowsLen : (hp.rowsOf s.outer).length = s.h
  rows : ∀ row ∈ hp.rowsOf s.outer, n ≤ row ∧ (hp.cellsOf row).length = s.w ∧ ∀ c ∈ hp.cellsOf row, n ≤ c
  tf : n ≤ (hp.agentOf s.agent).1
  held : n ≤ (hp.agentOf s.agent).2
  closed : ∀ r, n ≤ r → ∀ c, (hp.objOf r).content = some c → n ≤ c

theorem HState.contains_iff (s : HState) (p : Pos) :
    s.contains p = true ↔ 0 ≤ p.y ∧ p.y < s.h ∧ 0 ≤ p.x ∧ p.x < s.w := by
  simp [HState.contains, and_assoc]

/-- the object reference in an in-grid cell belongs to the state -/
theorem OwnedFrom.cellRef {n : Nat} {hp : Heap} {s : HState} (o : OwnedFrom n hp s) (p : Pos)
    (hp' : s.contains p = true) :
    ∃ row, row ∈ hp.rowsOf s.outer ∧ (hp.rowsOf s.outer).getD p.y.toNat 0 = row ∧
      hp.cellRef s p ∈ hp.cellsOf row ∧ n ≤ hp.cellRef s p ∧ n ≤ row ∧ p.x.toNat < (hp.cellsOf row).length := by
  rw [HState.contains_iff] at hp'
  have hy : p.y.toNat < (hp.rowsOf s.outer).length := by rw [o.rowsLen]; omega
  have hrow : (hp.rowsOf s.outer).getD p.y.toNat 0 = (hp.rowsOf s.outer)[p.y.toNat] := by
    simp [List.getD, hy]
  have hmem : (hp.rowsOf s.outer)[p.y.toNat] ∈ hp.rowsOf s.outer := List.getElem_mem hy
  obtain ⟨hr1, hr2, hr3⟩ := o.rows _ hmem
  have hx : p.x.toNat < (hp.cellsOf (hp.rowsOf s.outer)[p.y.toNat]).length := by rw [hr2]; omega
  have hcell : hp.cellRef s p = (hp.cellsOf (hp.rowsOf s.outer)[p.y.toNat])[p.x.toNat] := by
    unfold Heap.cellRef; rw [hrow]; simp [List.getD, hx]
  refine ⟨_, hmem, hrow, ?_, ?_, hr1, hx⟩
  · rw [hcell]; exact List.getElem_mem hx
  · rw [hcell]; exact hr3 _ (List.getElem_mem hx)

/-- `grid[p] = r` for an in-grid `p` and a reference `r ≥ n` keeps the state above `n` and touches
nothing below -/
theorem assignCell_step {n : Nat} {hp : Heap} {s : HState} (o : OwnedFrom n hp s) (p : Pos)
    (hc : s.contains p = true) (r : Ref) (hr : n ≤ r) :
    StepFrom n hp (hp.assignCell s p r) ∧ OwnedFrom n (hp.assignCell s p r) s := by
  obtain ⟨row, hmem, hrow, _, _, hrn, hx⟩ := o.cellRef p hc
  have hdef : hp.assignCell s p r = hp.setCells row ((hp.cellsOf row).set p.x.toNat r) := by
    simp only [Heap.assignCell, hrow]
  rw [hdef]
  refine ⟨step_setCells n hp row _ hrn, ?_⟩
  refine ⟨o.le, o.agent, o.rowsLen, ?_, o.tf, o.held, o.closed⟩
  intro row' hrow'
  have hrow'' : row' ∈ hp.rowsOf s.outer := hrow'
  obtain ⟨h1, h2, h3⟩ := o.rows row' hrow''
  by_cases he : row' = row
  · subst he
    simp only [Heap.setCells, if_true]
    refine ⟨h1, by simp [h2], ?_⟩
    intro c hc'
    rcases List.mem_or_eq_of_mem_set hc' with h | h
    · exact h3 c h
    · rw [h]; exact hr
  · simp only [Heap.setCells, he, if_false]
    exact ⟨h1, h2, h3⟩

theorem setTf_owned {n : Nat} {hp : Heap} {s : HState} (o : OwnedFrom n hp s) (r : Ref) (t : Transform) :
    OwnedFrom n (hp.setTf r t) s :=
  ⟨o.le, o.agent, o.rowsLen, o.rows, o.tf, o.held, o.closed⟩

theorem newObj_owned {n : Nat} {hp : Heap} {s : HState} (o : OwnedFrom n hp s) (ob : Obj) :
    OwnedFrom n (hp.newObj ⟨ob, none⟩).2 s := by
  refine ⟨Nat.le_succ_of_le o.le, o.agent, o.rowsLen, o.rows, o.tf, o.held, ?_⟩
  intro r hr c hc
  simp only [Heap.newObj] at hc
  by_cases he : r = hp.next
  · rw [if_pos he] at hc; cases hc
  · rw [if_neg he] at hc; exact o.closed r hr c hc


theorem setAgent_owned {n : Nat} {hp : Heap} {s : HState} (o : OwnedFrom n hp s) (a : Ref × Ref)
    (h1 : n ≤ a.1) (h2 : n ≤ a.2) : OwnedFrom n (hp.setAgent s.agent a) s := by
  refine ⟨o.le, o.agent, o.rowsLen, o.rows, ?_, ?_, o.closed⟩
  · simp only [Heap.setAgent, if_true]; exact h1
  · simp only [Heap.setAgent, if_true]; exact h2

theorem setObj_owned {n : Nat} {hp : Heap} {s : HState} (o : OwnedFrom n hp s) (r : Ref) (ob : Obj) :
    OwnedFrom n (hp.setObj r { hp.objOf r with obj := ob }) s := by
  refine ⟨o.le, o.agent, o.rowsLen, o.rows, o.tf, o.held, ?_⟩
  intro x hx c hc
  simp only [Heap.setObj] at hc
  by_cases he : x = r
  · rw [if_pos he] at hc; exact o.closed r (he ▸ hx) c hc
  · rw [if_neg he] at hc; exact o.closed x hx c hc

/-- what an in-place function may do to a heap on which `s` lives at or above `n` -/
def Frame (n : Nat) (s : HState) (hp hp' : Heap) : Prop := StepFrom n hp hp' ∧ OwnedFrom n hp' s

theorem Frame.refl {n : Nat} {s : HState} {hp : Heap} (o : OwnedFrom n hp s) : Frame n s hp hp :=
  ⟨StepFrom.refl n hp, o⟩

theorem Frame.trans {n : Nat} {s : HState} {h1 h2 h3 : Heap} (a : Frame n s h1 h2) (b : Frame n s h2 h3) :
    Frame n s h1 h3 := ⟨a.1.trans b.1, b.2⟩

theorem setPos_frame {n : Nat} {hp : Heap} {s : HState} (o : OwnedFrom n hp s) (p : Pos) :
    Frame n s hp (hp.setPos s p) :=
  ⟨step_setTf n hp _ _ o.tf, setTf_owned o _ _⟩

theorem moveAgent_frame {n : Nat} {hp : Heap} {s : HState} (o : OwnedFrom n hp s) (a : Action) :
    Frame n s hp (hMoveAgent hp s a) := by
  unfold hMoveAgent
  simp only []
  repeat' split
  all_goals first | exact Frame.refl o | exact setPos_frame o _

theorem turnAgent_frame {n : Nat} {hp : Heap} {s : HState} (o : OwnedFrom n hp s) (a : Action) :
    Frame n s hp (hTurnAgent hp s a) := by
  unfold hTurnAgent
  split
  · exact Frame.refl o
  · exact ⟨step_setTf n hp _ _ o.tf, setTf_owned o _ _⟩

theorem newObj_frame {n : Nat} {hp : Heap} {s : HState} (o : OwnedFrom n hp s) (ob : Obj) :
    Frame n s hp (hp.newObj ⟨ob, none⟩).2 := ⟨step_newObj n hp _ o.le, newObj_owned o ob⟩

theorem assignCell_frame {n : Nat} {hp : Heap} {s : HState} (o : OwnedFrom n hp s) (p : Pos)
    (hc : s.contains p = true) (r : Ref) (hr : n ≤ r) : Frame n s hp (hp.assignCell s p r) :=
  assignCell_step o p hc r hr

theorem pickndrop_frame {n : Nat} {hp : Heap} {s : HState} (o : OwnedFrom n hp s) (a : Action) :
    Frame n s hp (hPickndrop hp s a) := by
  unfold hPickndrop
  simp only []
  split
  · split
    · rename_i hfront
      split
      · -- the object put down
        have hput : ∃ put : Ref × Heap, put = (if ((hp.objOf (hp.heldRef s)).obj.isKind .noneObj) = true then
              hp.newObj ⟨.floor, none⟩ else (hp.heldRef s, hp)) ∧ Frame n s hp put.2 ∧ n ≤ put.1 := by
          refine ⟨_, rfl, ?_⟩
          split
          · exact ⟨newObj_frame o _, o.le⟩
          · exact ⟨Frame.refl o, o.held⟩
        obtain ⟨put, hpe, hpf, hpn⟩ := hput
        rw [← hpe]
        have h1 := assignCell_frame hpf.2 (hp.front s) hfront put.1 hpn
        have hfr : n ≤ hp.cellRef s (hp.front s) := by
          obtain ⟨_, _, _, _, h, _⟩ := o.cellRef (hp.front s) hfront
          exact h
        have hnh : ∃ nh : Ref × Heap, nh = (if (hp.objOf (hp.cellRef s (hp.front s))).obj.holdable = true then
              (hp.cellRef s (hp.front s), put.2.assignCell s (hp.front s) put.1)
              else (put.2.assignCell s (hp.front s) put.1).newObj ⟨.noneObj, none⟩) ∧
              Frame n s (put.2.assignCell s (hp.front s) put.1) nh.2 ∧ n ≤ nh.1 := by
          refine ⟨_, rfl, ?_⟩
          split
          · exact ⟨Frame.refl h1.2, hfr⟩
          · exact ⟨newObj_frame h1.2 _, h1.2.le⟩
        obtain ⟨nh, hne, hnf, hnn⟩ := hnh
        rw [← hne]
        refine hpf.trans (h1.trans (hnf.trans ?_))
        exact ⟨step_setAgent n _ _ _ o.agent, setAgent_owned hnf.2 _ hnf.2.tf hnn⟩
      · exact Frame.refl o
    · exact Frame.refl o
  · exact Frame.refl o

theorem swapCells_frame {n : Nat} {hp : Heap} {s : HState} (o : OwnedFrom n hp s) (p q : Pos)
    (hp' : s.contains p = true) (hq : s.contains q = true) : Frame n s hp (hp.swapCells s p q) := by
  unfold Heap.swapCells
  obtain ⟨_, _, _, _, ha, _⟩ := o.cellRef p hp'
  obtain ⟨_, _, _, _, hb, _⟩ := o.cellRef q hq
  have h1 := assignCell_frame o p hp' _ hb
  exact h1.trans (assignCell_frame h1.2 q hq _ ha)

theorem obstacleStep_frame {n : Nat} {hp : Heap} {s : HState} (o : OwnedFrom n hp s) (p : Pos)
    (hp' : s.contains p = true) (d : DrawSt) : Frame n s hp (hObstacleStep s hp p d).1 := by
  unfold hObstacleStep
  simp only []
  split
  · exact Frame.refl o
  · rename_i i d' _
    apply swapCells_frame o p _ hp'
    generalize hl : (manhattanBoundary p 1).filter (fun q => s.contains q && (hp.objOf (hp.cellRef s q)).obj.isKind .floor) = l
    by_cases hi : i < l.length
    · have hm : l.getD i p ∈ l := by simp [List.getD, hi]
      have hm2 : l.getD i p ∈ (manhattanBoundary p 1).filter (fun q => s.contains q && (hp.objOf (hp.cellRef s q)).obj.isKind .floor) := by
        rw [hl]; exact hm
      have := (List.mem_filter.mp hm2).2
      simp only [Bool.and_eq_true] at this
      exact this.1
    · have : l.getD i p = p := by simp [List.getD, List.getElem?_eq_none (Nat.le_of_not_lt hi)]
      rw [this]; exact hp'

theorem mem_findCells {hp : Heap} {s : HState} {f : Obj → Bool} {p : Pos} (h : p ∈ hp.findCells s f) :
    s.contains p = true := by
  unfold Heap.findCells at h
  have := (List.mem_filter.mp h).1
  simp only [List.mem_flatMap, List.mem_map, List.mem_range] at this
  obtain ⟨i, hi, j, hj, rfl⟩ := this
  rw [HState.contains_iff]
  simp only
  omega

theorem obstaclesFold_frame {n : Nat} {s : HState} (ps : List Pos) (hps : ∀ p ∈ ps, s.contains p = true)
    (hp : Heap) (o : OwnedFrom n hp s) (d : DrawSt) :
    Frame n s hp (ps.foldl (fun (acc : Heap × DrawSt) p => hObstacleStep s acc.1 p acc.2) (hp, d)).1 := by
  induction ps generalizing hp d with
  | nil => exact Frame.refl o
  | cons p ps ih =>
    simp only [List.foldl_cons]
    have h1 := obstacleStep_frame o p (hps p (List.mem_cons_self ..)) d
    exact h1.trans (ih (fun q hq => hps q (List.mem_cons_of_mem _ hq)) _ h1.2 _)

theorem moveObstacles_frame {n : Nat} {hp : Heap} {s : HState} (o : OwnedFrom n hp s) (d : DrawSt) :
    Frame n s hp (hMoveObstacles hp s d).1 :=
  obstaclesFold_frame _ (fun _ h => mem_findCells h) hp o d

theorem actuateDoor_frame {n : Nat} {hp : Heap} {s : HState} (o : OwnedFrom n hp s) (a : Action) :
    Frame n s hp (hActuateDoor hp s a) := by
  unfold hActuateDoor
  simp only []
  split
  · split
    · rename_i hfront
      have hfr : n ≤ hp.cellRef s (hp.front s) := by
        obtain ⟨_, _, _, _, h, _⟩ := o.cellRef (hp.front s) hfront
        exact h
      repeat' split
      all_goals first
        | exact Frame.refl o
        | exact ⟨step_setObj n hp _ _ hfr, setObj_owned o _ _⟩
    · exact Frame.refl o
  · exact Frame.refl o

theorem actuateBox_frame {n : Nat} {hp : Heap} {s : HState} (o : OwnedFrom n hp s) (a : Action) :
    Frame n s hp (hActuateBox hp s a) := by
  unfold hActuateBox
  simp only []
  split
  · split
    · rename_i hfront
      have hfr : n ≤ hp.cellRef s (hp.front s) := by
        obtain ⟨_, _, _, _, h, _⟩ := o.cellRef (hp.front s) hfront
        exact h
      split
      · rename_i c _ hcont
        exact assignCell_frame o _ hfront c (o.closed _ hfr c hcont)
      · exact Frame.refl o
    · exact Frame.refl o
  · exact Frame.refl o

theorem teleport_frame {n : Nat} {hp : Heap} {s : HState} (o : OwnedFrom n hp s) (d : DrawSt) :
    Frame n s hp (hTeleport hp s d).1 := by
  unfold hTeleport
  simp only []
  repeat' split
  all_goals first | exact Frame.refl o | exact setPos_frame o _

theorem atom_frame {n : Nat} {hp : Heap} {s : HState} (o : OwnedFrom n hp s) (f : TransAtom) (a : Action)
    (d : DrawSt) : Frame n s hp (hRunAtom f hp s a d).1 := by
  cases f
  · exact moveAgent_frame o a
  · exact turnAgent_frame o a
  · exact pickndrop_frame o a
  · exact moveObstacles_frame o d
  · exact actuateDoor_frame o a
  · exact actuateBox_frame o a
  · exact teleport_frame o d

theorem chain_frame {n : Nat} {s : HState} (fs : List TransAtom) (hp : Heap) (o : OwnedFrom n hp s)
    (a : Action) (d : DrawSt) : Frame n s hp (hRunChain fs hp s a d).1 := by
  induction fs generalizing hp d with
  | nil => exact Frame.refl o
  | cons f fs ih =>
    simp only [hRunChain]
    have h1 := atom_frame o f a d
    exact h1.trans (ih _ h1.2 _)


/-! ### allocation-only evolutions (`pickle.loads`, list building) -/

/-- `h'` extends `h`: everything allocated in `h` is untouched, nothing was assigned -/
structure Ext (h h' : Heap) : Prop where
  next : h.next ≤ h'.next
  agree : AgreeBelow h.next h h'
  writes : h'.writes = h.writes

theorem Ext.refl (h : Heap) : Ext h h :=
  ⟨Nat.le_refl _, (StepFrom.refl _ h).agree, rfl⟩

theorem AgreeBelow.mono {n m : Nat} {h h' : Heap} (a : AgreeBelow n h h') (hm : m ≤ n) : AgreeBelow m h h' :=
  ⟨fun r hr => a.rows r (by omega), fun r hr => a.cells r (by omega), fun r hr => a.obj r (by omega),
   fun r hr => a.tf r (by omega), fun r hr => a.agent r (by omega)⟩

theorem Ext.trans {h1 h2 h3 : Heap} (a : Ext h1 h2) (b : Ext h2 h3) : Ext h1 h3 := by
  refine ⟨Nat.le_trans a.next b.next, ?_, by rw [b.writes, a.writes]⟩
  have b' := b.agree.mono a.next
  exact ((⟨a.agree, fun r hr => Or.inl (a.writes ▸ hr), a.next⟩ : StepFrom h1.next h1 h2).trans
    ⟨b', fun r hr => Or.inl (b.writes ▸ hr), b.next⟩).agree

theorem Ext.toStep {h h' : Heap} (e : Ext h h') {n : Nat} (hn : n ≤ h.next) : StepFrom n h h' :=
  ⟨e.agree.mono hn, fun r hr => Or.inl (e.writes ▸ hr), e.next⟩

theorem ext_of_step {h h' : Heap} (st : StepFrom h.next h h') (hw : h'.writes = h.writes) : Ext h h' :=
  ⟨st.next, st.agree, hw⟩

theorem ext_newObj (h : Heap) (o : HObj) : Ext h (h.newObj o).2 := ext_of_step (step_newObj _ h o (Nat.le_refl _)) rfl
theorem ext_newCells (h : Heap) (o : List Ref) : Ext h (h.newCells o).2 := ext_of_step (step_newCells _ h o (Nat.le_refl _)) rfl
theorem ext_newRows (h : Heap) (o : List Ref) : Ext h (h.newRows o).2 := ext_of_step (step_newRows _ h o (Nat.le_refl _)) rfl
theorem ext_newTf (h : Heap) (o : Transform) : Ext h (h.newTf o).2 := ext_of_step (step_newTf _ h o (Nat.le_refl _)) rfl
theorem ext_newAgent (h : Heap) (o : Ref × Ref) : Ext h (h.newAgent o).2 := ext_of_step (step_newAgent _ h o (Nat.le_refl _)) rfl

/-- every object at or above `n` keeps its content at or above `n` -/
def Closed (n : Nat) (h : Heap) : Prop := ∀ r, n ≤ r → ∀ c, (h.objOf r).content = some c → n ≤ c

theorem closed_newObj {n : Nat} {h : Heap} (hc : Closed n h) (o : HObj) (ho : ∀ c, o.content = some c → n ≤ c) :
    Closed n (h.newObj o).2 := by
  intro r hr c hcont
  simp only [Heap.newObj] at hcont
  by_cases he : r = h.next
  · rw [if_pos he] at hcont; exact ho c hcont
  · rw [if_neg he] at hcont; exact hc r hr c hcont

/-- what a `load*` function guarantees: only allocation, closedness kept, the result is new -/
structure Loaded (n : Nat) (h : Heap) (r : Ref × Heap) : Prop where
  ext : Ext h r.2
  closed : Closed n r.2
  lo : h.next ≤ r.1
  hi : r.1 < r.2.next

theorem loadObj_spec (n : Nat) (o : Obj) (h : Heap) (hn : n ≤ h.next) (hc : Closed n h) :
    Loaded n h (h.loadObj o) := by
  induction o generalizing h with
  | box c ih =>
    simp only [Heap.loadObj]
    have l := ih h hn hc
    refine ⟨l.ext.trans (ext_newObj _ _), closed_newObj l.closed _ ?_, ?_, ?_⟩
    · intro x hx; cases hx; exact Nat.le_trans hn l.lo
    · exact l.ext.next
    · simp [Heap.newObj]
  | _ =>
    simp only [Heap.loadObj]
    refine ⟨ext_newObj _ _, closed_newObj hc _ (fun c h => by cases h), Nat.le_refl _, ?_⟩
    simp [Heap.newObj]

/-- a list of loads: all results new, and a per-element fact `P` that survives later allocation -/
theorem loadList_spec {α : Type} (n : Nat) (load : Heap → α → Ref × Heap) (P : Heap → Ref → Prop) (Q : α → Prop)
    (hload : ∀ h x, Q x → n ≤ h.next → Closed n h → Loaded n h (load h x) ∧ P (load h x).2 (load h x).1)
    (hstable : ∀ h h' r, Ext h h' → r < h.next → P h r → P h' r)
    (l : List α) (hQ : ∀ x ∈ l, Q x) (h : Heap) (hn : n ≤ h.next) (hc : Closed n h) :
    Ext h (h.loadList load l).2 ∧ Closed n (h.loadList load l).2 ∧ (h.loadList load l).1.length = l.length ∧
    ∀ r ∈ (h.loadList load l).1, h.next ≤ r ∧ r < (h.loadList load l).2.next ∧ P (h.loadList load l).2 r := by
  induction l generalizing h with
  | nil => exact ⟨Ext.refl h, hc, rfl, fun r hr => by cases hr⟩
  | cons x xs ih =>
    simp only [Heap.loadList]
    obtain ⟨l1, p1⟩ := hload h x (hQ x (List.mem_cons_self ..)) hn hc
    obtain ⟨e2, c2, len2, all2⟩ := ih (fun y hy => hQ y (List.mem_cons_of_mem _ hy)) (load h x).2
      (Nat.le_trans hn l1.ext.next) l1.closed
    refine ⟨l1.ext.trans e2, c2, by simp [len2], ?_⟩
    intro r hr
    rcases List.mem_cons.mp hr with rfl | hr
    · exact ⟨l1.lo, Nat.lt_of_lt_of_le l1.hi e2.next, hstable _ _ _ e2 l1.hi p1⟩
    · obtain ⟨a, b, c⟩ := all2 r hr
      exact ⟨Nat.le_trans l1.ext.next a, b, c⟩

/-- the fact kept about a loaded row: its length and that its cells are new -/
def RowOK (n w : Nat) (h : Heap) (r : Ref) : Prop := (h.cellsOf r).length = w ∧ ∀ c ∈ h.cellsOf r, n ≤ c

theorem RowOK.stable (n w : Nat) (h h' : Heap) (r : Ref) (e : Ext h h') (hr : r < h.next) (p : RowOK n w h r) :
    RowOK n w h' r := by
  unfold RowOK at *
  rw [e.agree.cells r hr]; exact p

theorem loadRow_spec (n : Nat) (row : List Obj) (h : Heap) (hn : n ≤ h.next) (hc : Closed n h) :
    Loaded n h (h.loadRow row) ∧ RowOK n row.length (h.loadRow row).2 (h.loadRow row).1 := by
  unfold Heap.loadRow
  obtain ⟨e, c, len, all⟩ := loadList_spec n Heap.loadObj (fun _ _ => True) (fun _ => True)
    (fun h x _ hn hc => ⟨loadObj_spec n x h hn hc, trivial⟩) (fun _ _ _ _ _ _ => trivial) row
    (fun _ _ => trivial) h hn hc
  refine ⟨⟨e.trans (ext_newCells _ _), ?_, e.next, by simp [Heap.newCells]⟩, ?_, ?_⟩
  · intro r hr x hx; exact c r hr x hx
  · simp [Heap.newCells, len]
  · intro x hx
    simp only [Heap.newCells, if_true] at hx
    exact Nat.le_trans hn (all x hx).1

/-- `loads` builds a state that lives entirely in new nodes, allocating only -/
theorem load_spec (st : State) (hwf : ∀ row ∈ st.grid.cells, row.length = st.grid.w)
    (hh : st.grid.cells.length = st.grid.h) (h : Heap) (hc : Closed h.next h) :
    Ext h (h.load st).2 ∧ OwnedFrom h.next (h.load st).2 (h.load st).1 := by
  obtain ⟨e1, c1, len1, all1⟩ := loadList_spec h.next Heap.loadRow (RowOK h.next st.grid.w)
    (fun row => row.length = st.grid.w)
    (fun h' x hx hn hc => by
      have := loadRow_spec h.next x h' hn hc
      rw [hx] at this; exact this)
    (RowOK.stable h.next st.grid.w) st.grid.cells hwf h (Nat.le_refl _) hc
  generalize hrows : h.loadList Heap.loadRow st.grid.cells = rows at e1 c1 len1 all1
  -- the remaining allocations
  have eO := ext_newRows rows.2 rows.1
  generalize hO : rows.2.newRows rows.1 = outer at eO
  have hOv : outer.1 = rows.2.next ∧ outer.2.rowsOf outer.1 = rows.1 ∧ outer.2.next = rows.2.next + 1 ∧
      outer.2.cellsOf = rows.2.cellsOf ∧ outer.2.objOf = rows.2.objOf := by
    rw [← hO]; simp [Heap.newRows]
  have eT := ext_newTf outer.2 ⟨st.agent.pos, st.agent.o⟩
  generalize hT : outer.2.newTf ⟨st.agent.pos, st.agent.o⟩ = tf at eT
  have hTv : tf.1 = outer.2.next ∧ tf.2.next = outer.2.next + 1 ∧ tf.2.objOf = outer.2.objOf := by
    rw [← hT]; simp [Heap.newTf]
  have hn1 : h.next ≤ tf.2.next := by have := e1.next; omega
  have cT : Closed h.next tf.2 := by
    intro r hr c hcont; rw [hTv.2.2, hOv.2.2.2.2] at hcont; exact c1 r hr c hcont
  have lH := loadObj_spec h.next st.agent.held tf.2 hn1 cT
  generalize hH : tf.2.loadObj st.agent.held = held at lH
  have eA := ext_newAgent held.2 (tf.1, held.1)
  generalize hA : held.2.newAgent (tf.1, held.1) = ag at eA
  have hAv : ag.1 = held.2.next ∧ ag.2.agentOf ag.1 = (tf.1, held.1) ∧ ag.2.next = held.2.next + 1 ∧
      ag.2.objOf = held.2.objOf ∧ ag.2.rowsOf = held.2.rowsOf ∧ ag.2.cellsOf = held.2.cellsOf := by
    rw [← hA]; simp [Heap.newAgent]
  have hdef : h.load st = (⟨outer.1, ag.1, st.grid.h, st.grid.w⟩, ag.2) := by
    simp only [Heap.load, hrows, hO, hT, hH, hA]
  rw [hdef]
  have eAll : Ext outer.2 ag.2 := eT.trans (lH.ext.trans eA)
  have hnext := e1.next
  have hnext2 := lH.ext.next
  have q1 : @Eq Nat outer.1 rows.2.next := hOv.1
  have q2 : @Eq Nat outer.2.next (rows.2.next + 1) := hOv.2.2.1
  have q3 : @Eq Nat tf.1 outer.2.next := hTv.1
  have q4 : @Eq Nat tf.2.next (outer.2.next + 1) := hTv.2.1
  have q5 : @Eq Nat ag.1 held.2.next := hAv.1
  have q6 : @Eq Nat ag.2.next (held.2.next + 1) := hAv.2.2.1
  refine ⟨e1.trans (eO.trans eAll), ⟨?_, ?_, ?_, ?_, ?_, ?_, ?_⟩⟩
  · show h.next ≤ ag.2.next
    omega
  · show h.next ≤ ag.1
    omega
  · show (ag.2.rowsOf outer.1).length = st.grid.h
    rw [eAll.agree.rows outer.1 (by omega), hOv.2.1, len1, hh]
  · show ∀ row ∈ ag.2.rowsOf outer.1, _
    rw [eAll.agree.rows outer.1 (by omega), hOv.2.1]
    intro row hrow
    obtain ⟨a, b, c⟩ := all1 row hrow
    have hs := RowOK.stable h.next st.grid.w rows.2 ag.2 row (eO.trans eAll) b c
    exact ⟨a, hs.1, hs.2⟩
  · show h.next ≤ (ag.2.agentOf ag.1).1
    rw [hAv.2.1]; show h.next ≤ tf.1; omega
  · show h.next ≤ (ag.2.agentOf ag.1).2
    rw [hAv.2.1]; show h.next ≤ held.1
    have := lH.lo; omega
  · intro r hr c hcont
    rw [hAv.2.2.2.1] at hcont
    exact lH.closed r hr c hcont

/-! ### the observation: fresh containers, assignments only into them -/

/-- the containers (outer list, row lists) of `o` live at or above `n` and have `o`'s shape -/
structure RowsFrom (n : Nat) (hp : Heap) (o : HState) : Prop where
  rowsLen : (hp.rowsOf o.outer).length = o.h
  rows : ∀ row ∈ hp.rowsOf o.outer, n ≤ row ∧ (hp.cellsOf row).length = o.w

theorem assignCell_rows {n : Nat} {hp : Heap} {o : HState} (ro : RowsFrom n hp o) (p : Pos)
    (hc : o.contains p = true) (r : Ref) :
    StepFrom n hp (hp.assignCell o p r) ∧ RowsFrom n (hp.assignCell o p r) o := by
  rw [HState.contains_iff] at hc
  have hy : p.y.toNat < (hp.rowsOf o.outer).length := by rw [ro.rowsLen]; omega
  have hrow : (hp.rowsOf o.outer).getD p.y.toNat 0 = (hp.rowsOf o.outer)[p.y.toNat] := by
    simp [List.getD, hy]
  have hmem : (hp.rowsOf o.outer)[p.y.toNat] ∈ hp.rowsOf o.outer := List.getElem_mem hy
  generalize hR : (hp.rowsOf o.outer)[p.y.toNat] = row at hrow hmem
  have hdef : hp.assignCell o p r = hp.setCells row ((hp.cellsOf row).set p.x.toNat r) := by
    simp only [Heap.assignCell, hrow]
  rw [hdef]
  refine ⟨step_setCells n hp row _ (ro.rows row hmem).1, ro.rowsLen, ?_⟩
  intro row' hrow'
  have hrow'' : row' ∈ hp.rowsOf o.outer := hrow'
  obtain ⟨h1, h2⟩ := ro.rows row' hrow''
  by_cases he : row' = row
  · subst he
    simp only [Heap.setCells, if_true]
    exact ⟨h1, by simp [h2]⟩
  · simp only [Heap.setCells, he, if_false]
    exact ⟨h1, h2⟩

theorem newObj_rows {n : Nat} {hp : Heap} {o : HState} (ro : RowsFrom n hp o) (ob : HObj) :
    RowsFrom n (hp.newObj ob).2 o := ⟨ro.rowsLen, ro.rows⟩

theorem hideCells_step {n : Nat} {o : HState} (m : Mask) (ps : List Pos) (hps : ∀ p ∈ ps, o.contains p = true)
    (hp : Heap) (hn : n ≤ hp.next) (ro : RowsFrom n hp o) :
    StepFrom n hp (hp.hideCells o m ps) ∧ RowsFrom n (hp.hideCells o m ps) o := by
  induction ps generalizing hp with
  | nil => exact ⟨StepFrom.refl n hp, ro⟩
  | cons p ps ih =>
    simp only [Heap.hideCells]
    split
    · exact ih (fun q hq => hps q (List.mem_cons_of_mem _ hq)) hp hn ro
    · have s1 := step_newObj n hp ⟨.hidden, none⟩ hn
      have r1 := newObj_rows ro (⟨.hidden, none⟩ : HObj)
      obtain ⟨s2, r2⟩ := assignCell_rows r1 p (hps p (List.mem_cons_self ..)) (hp.newObj ⟨.hidden, none⟩).1
      obtain ⟨s3, r3⟩ := ih (fun q hq => hps q (List.mem_cons_of_mem _ hq)) _
        (Nat.le_trans hn (s1.trans s2).next) r2
      exact ⟨(s1.trans s2).trans s3, r3⟩

theorem buildRow_spec (l : List (Option Ref)) (h : Heap) :
    Ext h (h.buildRow l).2 ∧ (h.buildRow l).1.length = l.length := by
  induction l generalizing h with
  | nil => exact ⟨Ext.refl h, rfl⟩
  | cons x xs ih =>
    cases x with
    | some r =>
      simp only [Heap.buildRow]
      exact ⟨(ih h).1, by simp [(ih h).2]⟩
    | none =>
      simp only [Heap.buildRow]
      exact ⟨(ext_newObj h _).trans (ih _).1, by simp [(ih _).2]⟩

theorem buildRows_spec (w : Nat) (l : List (List (Option Ref))) (hl : ∀ row ∈ l, row.length = w) (h : Heap) :
    Ext h (h.buildRows l).2 ∧ (h.buildRows l).1.length = l.length ∧
    ∀ r ∈ (h.buildRows l).1, h.next ≤ r ∧ r < (h.buildRows l).2.next ∧
      ((h.buildRows l).2.cellsOf r).length = w := by
  induction l generalizing h with
  | nil => exact ⟨Ext.refl h, rfl, fun r hr => by cases hr⟩
  | cons row rest ih =>
    simp only [Heap.buildRows]
    obtain ⟨e1, len1⟩ := buildRow_spec row h
    have e2 := ext_newCells (h.buildRow row).2 (h.buildRow row).1
    generalize hR : (h.buildRow row).2.newCells (h.buildRow row).1 = r at e2
    have hRv : @Eq Nat r.1 (h.buildRow row).2.next ∧ @Eq Nat r.2.next ((h.buildRow row).2.next + 1) ∧
        r.2.cellsOf r.1 = (h.buildRow row).1 := by
      rw [← hR]; simp [Heap.newCells]
    obtain ⟨e3, len3, all3⟩ := ih (fun x hx => hl x (List.mem_cons_of_mem _ hx)) r.2
    have n1 := e1.next
    have n3 := e3.next
    have q1 := hRv.1
    have q2 := hRv.2.1
    refine ⟨e1.trans (e2.trans e3), by simp [len3], ?_⟩
    intro x hx
    rcases List.mem_cons.mp hx with rfl | hx
    · refine ⟨by omega, Nat.lt_of_lt_of_le (Nat.lt_of_le_of_lt (Nat.le_of_eq q1)
        (by omega : (h.buildRow row).2.next < r.2.next)) n3, ?_⟩
      rw [e3.agree.cells r.1 (by omega), hRv.2.2, len1]
      exact hl row (List.mem_cons_self ..)
    · obtain ⟨a, b, c⟩ := all3 x hx
      exact ⟨by omega, b, c⟩

/-! ### `loads (dumps s)` denotes the value of `s` -/

/-- the object at `r` is a faithful, allocated representation of the value `o` -/
def Denotes (h : Heap) (r : Ref) (o : Obj) : Prop :=
  r < h.next ∧ (h.objOf r).obj = o ∧
  match o with
  | .box c => ∃ cr, (h.objOf r).content = some cr ∧ Denotes h cr c
  | _ => (h.objOf r).content = none

theorem closed_zero (h : Heap) : Closed 0 h := fun _ _ _ _ => Nat.zero_le _

theorem loadObj_ext (o : Obj) (h : Heap) : Ext h (h.loadObj o).2 :=
  (loadObj_spec 0 o h (Nat.zero_le _) (closed_zero h)).ext

theorem Denotes.stable {h h' : Heap} (e : Ext h h') (o : Obj) (r : Ref) (d : Denotes h r o) : Denotes h' r o := by
  induction o generalizing r with
  | box c ih =>
    unfold Denotes at d ⊢
    obtain ⟨lt, ho, cr, hc, dc⟩ := d
    refine ⟨Nat.lt_of_lt_of_le lt e.next, by rw [e.agree.obj r lt]; exact ho, cr, by rw [e.agree.obj r lt]; exact hc, ih cr dc⟩
  | _ =>
    unfold Denotes at d ⊢
    obtain ⟨lt, ho, hc⟩ := d
    exact ⟨Nat.lt_of_lt_of_le lt e.next, by rw [e.agree.obj r lt]; exact ho, by rw [e.agree.obj r lt]; exact hc⟩

theorem Denotes.abs {h : Heap} (o : Obj) (r : Ref) (d : Denotes h r o) (fuel : Nat) : h.absObj fuel r = o := by
  induction o generalizing r fuel with
  | box c ih =>
    unfold Denotes at d
    obtain ⟨_, ho, cr, hc, dc⟩ := d
    cases fuel with
    | zero => exact ho
    | succ k => simp only [Heap.absObj, ho, hc, ih cr dc k]
  | _ =>
    unfold Denotes at d
    obtain ⟨_, ho, hc⟩ := d
    cases fuel with
    | zero => exact ho
    | succ k => simp only [Heap.absObj, ho, hc]

theorem loadObj_denotes (o : Obj) (h : Heap) : Denotes (h.loadObj o).2 (h.loadObj o).1 o := by
  induction o generalizing h with
  | box c ih =>
    simp only [Heap.loadObj]
    unfold Denotes
    refine ⟨by simp [Heap.newObj], by simp [Heap.newObj], (h.loadObj c).1, by simp [Heap.newObj], ?_⟩
    exact Denotes.stable (ext_newObj _ _) c _ (ih h)
  | _ =>
    simp only [Heap.loadObj]
    unfold Denotes
    exact ⟨by simp [Heap.newObj], by simp [Heap.newObj], by simp [Heap.newObj]⟩

/-- element-wise relation between two lists -/
inductive All₂ {α β : Type} (R : α → β → Prop) : List α → List β → Prop
  | nil : All₂ R [] []
  | cons {a b as bs} : R a b → All₂ R as bs → All₂ R (a :: as) (b :: bs)

theorem All₂.imp {α β : Type} {R S : α → β → Prop} {as : List α} {bs : List β} (f : All₂ R as bs)
    (h : ∀ a b, R a b → S a b) : All₂ S as bs := by
  induction f with
  | nil => exact .nil
  | cons r _ ih => exact .cons (h _ _ r) ih

theorem loadList_rel {α : Type} (load : Heap → α → Ref × Heap) (R : Heap → Ref → α → Prop)
    (hload : ∀ h x, Ext h (load h x).2 ∧ R (load h x).2 (load h x).1 x)
    (hstable : ∀ h h' r x, Ext h h' → R h r x → R h' r x) (l : List α) (h : Heap) :
    Ext h (h.loadList load l).2 ∧ All₂ (R (h.loadList load l).2) (h.loadList load l).1 l := by
  induction l generalizing h with
  | nil => exact ⟨Ext.refl h, All₂.nil⟩
  | cons x xs ih =>
    simp only [Heap.loadList]
    obtain ⟨e1, r1⟩ := hload h x
    obtain ⟨e2, r2⟩ := ih (load h x).2
    exact ⟨e1.trans e2, All₂.cons (hstable _ _ _ _ e2 r1) r2⟩

theorem forall₂_abs {h : Heap} (fuel : Nat) (rs : List Ref) (os : List Obj) (f : All₂ (Denotes h) rs os) :
    rs.map (h.absObj fuel) = os := by
  induction f with
  | nil => rfl
  | cons d _ ih => simp only [List.map_cons, Denotes.abs _ _ d fuel, ih]

/-- a row list that faithfully represents a row of values -/
def RowDenotes (h : Heap) (r : Ref) (row : List Obj) : Prop :=
  r < h.next ∧ All₂ (Denotes h) (h.cellsOf r) row

theorem RowDenotes.stable (h h' : Heap) (r : Ref) (row : List Obj) (e : Ext h h') (d : RowDenotes h r row) :
    RowDenotes h' r row := by
  obtain ⟨lt, f⟩ := d
  refine ⟨Nat.lt_of_lt_of_le lt e.next, ?_⟩
  rw [e.agree.cells r lt]
  exact f.imp (fun _ _ d => Denotes.stable e _ _ d)

theorem loadRow_denotes (h : Heap) (row : List Obj) :
    Ext h (h.loadRow row).2 ∧ RowDenotes (h.loadRow row).2 (h.loadRow row).1 row := by
  unfold Heap.loadRow
  obtain ⟨e, f⟩ := loadList_rel Heap.loadObj Denotes (fun h x => ⟨loadObj_ext x h, loadObj_denotes x h⟩)
    (fun _ _ r x e d => Denotes.stable e x r d) row h
  refine ⟨e.trans (ext_newCells _ _), by simp [Heap.newCells], ?_⟩
  simp only [Heap.newCells, if_true]
  exact f.imp (fun _ _ d => Denotes.stable (ext_newCells _ _) _ _ d)

theorem forall₂_rows_abs {h : Heap} (fuel : Nat) (rs : List Ref) (rows : List (List Obj))
    (f : All₂ (RowDenotes h) rs rows) :
    rs.map (fun row => (h.cellsOf row).map (h.absObj fuel)) = rows := by
  induction f with
  | nil => rfl
  | cons d _ ih => simp only [List.map_cons, forall₂_abs fuel _ _ d.2, ih]

/-- unpickling a value yields a state that denotes it -/
theorem load_abs (st : State) (h : Heap) : (h.load st).2.abs (h.load st).1 = st := by
  obtain ⟨e1, f1⟩ := loadList_rel Heap.loadRow RowDenotes (fun h x => loadRow_denotes h x)
    RowDenotes.stable st.grid.cells h
  generalize hrows : h.loadList Heap.loadRow st.grid.cells = rows at e1 f1
  have eO := ext_newRows rows.2 rows.1
  generalize hO : rows.2.newRows rows.1 = outer at eO
  have hOv : @Eq Nat outer.1 rows.2.next ∧ outer.2.rowsOf outer.1 = rows.1 ∧
      @Eq Nat outer.2.next (rows.2.next + 1) := by
    rw [← hO]; simp [Heap.newRows]
  have eT := ext_newTf outer.2 ⟨st.agent.pos, st.agent.o⟩
  generalize hT : outer.2.newTf ⟨st.agent.pos, st.agent.o⟩ = tf at eT
  have hTv : @Eq Nat tf.1 outer.2.next ∧ @Eq Nat tf.2.next (outer.2.next + 1) ∧
      tf.2.tfOf tf.1 = ⟨st.agent.pos, st.agent.o⟩ := by
    rw [← hT]; simp [Heap.newTf]
  have eH := loadObj_ext st.agent.held tf.2
  have dH := loadObj_denotes st.agent.held tf.2
  generalize hH : tf.2.loadObj st.agent.held = held at eH dH
  have eA := ext_newAgent held.2 (tf.1, held.1)
  generalize hA : held.2.newAgent (tf.1, held.1) = ag at eA
  have hAv : ag.2.agentOf ag.1 = (tf.1, held.1) := by
    rw [← hA]; simp [Heap.newAgent]
  have hdef : h.load st = (⟨outer.1, ag.1, st.grid.h, st.grid.w⟩, ag.2) := by
    simp only [Heap.load, hrows, hO, hT, hH, hA]
  rw [hdef]
  have q1 := hOv.1
  have q2 := hOv.2.2
  have q3 := hTv.1
  have q4 := hTv.2.1
  have eOA : Ext outer.2 ag.2 := eT.trans (eH.trans eA)
  have eTA : Ext tf.2 ag.2 := eH.trans eA
  have hgrid : ag.2.absGrid ⟨outer.1, ag.1, st.grid.h, st.grid.w⟩ = st.grid := by
    unfold Heap.absGrid
    simp only
    rw [eOA.agree.rows outer.1 (by omega), hOv.2.1]
    have f2 : All₂ (RowDenotes ag.2) rows.1 st.grid.cells :=
      f1.imp (fun r row d => RowDenotes.stable _ _ r row (eO.trans eOA) d)
    rw [forall₂_rows_abs boxFuel _ _ f2]
  have hagent : ag.2.absAgent ⟨outer.1, ag.1, st.grid.h, st.grid.w⟩ = st.agent := by
    unfold Heap.absAgent
    simp only [hAv]
    rw [eTA.agree.tf tf.1 (by omega), hTv.2.2, Denotes.abs _ _ (Denotes.stable eA _ _ dH) boxFuel]
  unfold Heap.abs
  rw [hgrid, hagent]

/-! ### unallocated memory holds nothing (the heaps `loads` builds from the empty heap) -/

def Clean (h : Heap) : Prop := ∀ r, h.next ≤ r → (h.objOf r).content = none

theorem Clean.closed {h : Heap} (c : Clean h) : Closed h.next h := by
  intro r hr x hx; rw [c r hr] at hx; cases hx

theorem clean_newObj {h : Heap} (c : Clean h) (o : HObj) : Clean (h.newObj o).2 := by
  intro r hr
  have hr' : h.next + 1 ≤ r := hr
  show (if r = h.next then o else h.objOf r).content = none
  rw [if_neg (by omega)]; exact c r (by omega)

theorem clean_of_same {h h' : Heap} (c : Clean h) (ho : h'.objOf = h.objOf) (hn : h.next ≤ h'.next) : Clean h' := by
  intro r hr; rw [ho]; exact c r (Nat.le_trans hn hr)

theorem clean_loadObj (o : Obj) (h : Heap) (c : Clean h) : Clean (h.loadObj o).2 := by
  induction o generalizing h with
  | box x ih => simp only [Heap.loadObj]; exact clean_newObj (ih h c) _
  | _ => simp only [Heap.loadObj]; exact clean_newObj c _

theorem clean_loadList {α : Type} (load : Heap → α → Ref × Heap) (hl : ∀ h x, Clean h → Clean (load h x).2)
    (l : List α) (h : Heap) (c : Clean h) : Clean (h.loadList load l).2 := by
  induction l generalizing h with
  | nil => exact c
  | cons x xs ih => simp only [Heap.loadList]; exact ih _ (hl h x c)

theorem clean_loadRow (row : List Obj) (h : Heap) (c : Clean h) : Clean (h.loadRow row).2 := by
  unfold Heap.loadRow
  exact clean_of_same (clean_loadList Heap.loadObj (fun h x c => clean_loadObj x h c) row h c) rfl (Nat.le_succ _)

theorem clean_load (st : State) (h : Heap) (c : Clean h) : Clean (h.load st).2 := by
  unfold Heap.load
  simp only []
  have c1 := clean_loadList Heap.loadRow (fun h x c => clean_loadRow x h c) st.grid.cells h c
  have c2 : Clean ((h.loadList Heap.loadRow st.grid.cells).2.newRows (h.loadList Heap.loadRow st.grid.cells).1).2 :=
    clean_of_same c1 rfl (Nat.le_succ _)
  have c3 := clean_of_same c2 (h' := (((h.loadList Heap.loadRow st.grid.cells).2.newRows
    (h.loadList Heap.loadRow st.grid.cells).1).2.newTf ⟨st.agent.pos, st.agent.o⟩).2) rfl (Nat.le_succ _)
  have c4 := clean_loadObj st.agent.held _ c3
  exact clean_of_same c4 rfl (Nat.le_succ _)

theorem clean_empty : Clean Heap.empty := fun _ _ => rfl

end GV
