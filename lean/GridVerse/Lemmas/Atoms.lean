/-
  Cell-level effect of each primitive transition (used by C01, C09, C10).
-/
import GridVerse.Lemmas.Obstacles
set_option linter.unusedSimpArgs false
namespace GV

/-- the condition under which `pickndrop` writes the front cell -/
def pndFires (s : State) (a : Action) : Prop :=
  a = .pickNDrop ∧ s.grid.contains s.agent.front = true ∧
    ((s.grid.at s.agent.front).isKind .floor = true ∨ (s.grid.at s.agent.front).holdable = true)
instance (s : State) (a : Action) : Decidable (pndFires s a) := by unfold pndFires; exact inferInstance

/-- what `pickndrop` puts on the front cell -/
def pndPut (s : State) : Obj := if s.agent.held.isKind .noneObj then .floor else s.agent.held
/-- what ends up in the hand -/
def pndHeld (s : State) : Obj :=
  if (s.grid.at s.agent.front).holdable then s.grid.at s.agent.front else .noneObj

theorem pickndrop_eq (s : State) (a : Action) :
    pickndrop s a =
      if pndFires s a then
        { grid := s.grid.setP s.agent.front (pndPut s), agent := { s.agent with held := pndHeld s } }
      else s := by
  unfold pickndrop pndFires pndPut pndHeld
  simp only []
  by_cases h1 : a = .pickNDrop
  · by_cases h2 : s.grid.contains s.agent.front = true
    · by_cases h3 : ((s.grid.at s.agent.front).isKind .floor || (s.grid.at s.agent.front).holdable) = true
      · have h3' := h3
        simp only [Bool.or_eq_true] at h3'
        simp [h1, h2, h3, h3']
      · have h3' := h3
        simp only [Bool.or_eq_true, not_or] at h3'
        simp [h1, h2, h3, h3'.1, h3'.2]
    · simp [h1, h2]
  · simp [h1]

/-- the condition under which `actuate_door` opens the faced door -/
def doorFires (s : State) (a : Action) : Prop :=
  a = .actuate ∧ s.grid.contains s.agent.front = true ∧
    ∃ c, s.grid.at s.agent.front = .door .closed c ∨
         (s.grid.at s.agent.front = .door .locked c ∧ s.agent.held = .key c)

theorem actuateDoor_eq (s : State) (a : Action) :
    (doorFires s a ∧ ∃ c, (s.grid.at s.agent.front).color = c ∧
        actuateDoor s a = { s with grid := s.grid.setP s.agent.front (.door .open c) }) ∨
    (¬ doorFires s a ∧ actuateDoor s a = s) := by
  unfold actuateDoor doorFires
  simp only []
  by_cases h1 : a = .actuate
  · by_cases h2 : s.grid.contains s.agent.front = true
    · simp only [h1, h2, if_true, true_and]
      cases hob : s.grid.at s.agent.front with
      | door st c =>
        cases st with
        | «open» => right; simp
        | closed => left; exact ⟨⟨c, Or.inl rfl⟩, c, rfl, rfl⟩
        | locked =>
          cases hh : s.agent.held with
          | key kc =>
            by_cases hk : kc = c
            · subst hk; left; exact ⟨⟨kc, Or.inr ⟨rfl, rfl⟩⟩, kc, rfl, by simp⟩
            · right
              refine ⟨?_, by simp [hk]⟩
              rintro ⟨c', h | ⟨h, h'⟩⟩
              · cases h
              · cases h; cases h'; exact hk rfl
          | _ =>
            right
            refine ⟨?_, rfl⟩
            rintro ⟨c', h | ⟨_, h'⟩⟩
            · cases h
            · cases h'
      | _ =>
        right
        refine ⟨?_, rfl⟩
        rintro ⟨c', h | ⟨h, _⟩⟩ <;> cases h
    · right; simp [h1, h2]
  · right; simp [h1]

/-- the condition under which `actuate_box` opens the faced box -/
def boxFires (s : State) (a : Action) : Prop :=
  a = .actuate ∧ s.grid.contains s.agent.front = true ∧ ∃ c, s.grid.at s.agent.front = .box c

theorem actuateBox_eq (s : State) (a : Action) :
    (∃ c, a = .actuate ∧ s.grid.contains s.agent.front = true ∧ s.grid.at s.agent.front = .box c ∧
        actuateBox s a = { s with grid := s.grid.setP s.agent.front c }) ∨
    (¬ boxFires s a ∧ actuateBox s a = s) := by
  unfold actuateBox boxFires
  simp only []
  by_cases h1 : a = .actuate
  · by_cases h2 : s.grid.contains s.agent.front = true
    · simp only [h1, h2, if_true, true_and]
      cases hob : s.grid.at s.agent.front with
      | box c => left; exact ⟨c, rfl, rfl⟩
      | _ =>
        right
        refine ⟨?_, rfl⟩
        rintro ⟨c', h⟩; cases h
    · right; simp [h1, h2]
  · right; simp [h1]

/-- what a successful `teleport` can do: nothing but move the agent to a destination telepod -/
theorem teleport_ok (s s' : State) (d d' : DrawSt) (h : teleport s d = .ok (s', d')) :
    s'.grid = s.grid ∧ s'.agent.o = s.agent.o ∧ s'.agent.held = s.agent.held ∧
    (s'.agent.pos = s.agent.pos ∨
      ∃ t, s.grid.pyGet s.agent.pos = .ok t ∧ t.isKind .telepod = true ∧
        s'.agent.pos ∈ teleportTargets s t.color) := by
  unfold teleport at h
  split at h
  · cases h
  · rename_i t ht
    split at h
    · rename_i hk
      simp only [] at h
      split at h
      · cases h; exact ⟨rfl, rfl, rfl, Or.inl rfl⟩
      · split at h
        · cases h; exact ⟨rfl, rfl, rfl, Or.inl rfl⟩
        · rename_i i d'' hdc
          cases h
          have hi := drawChoice_some_lt _ _ _ _ hdc
          refine ⟨rfl, rfl, rfl, Or.inr ⟨t, ht, hk, ?_⟩⟩
          simp [List.getD, hi]
    · cases h; exact ⟨rfl, rfl, rfl, Or.inl rfl⟩

/-- every primitive transition keeps the grid rectangular and its shape -/
theorem atom_run_shape (f : TransAtom) (s s' : State) (a : Action) (d d' : DrawSt)
    (hw : s.grid.WF) (h : f.run s a d = .ok (s', d')) :
    s'.grid.WF ∧ s'.grid.h = s.grid.h ∧ s'.grid.w = s.grid.w := by
  cases f <;> simp only [TransAtom.run, Except.ok.injEq, Prod.mk.injEq] at h
  · obtain ⟨rfl, _⟩ := h
    unfold moveAgent; simp only []
    repeat' split
    all_goals exact ⟨hw, rfl, rfl⟩
  · obtain ⟨rfl, _⟩ := h
    unfold turnAgent
    cases a.turnOrient <;> exact ⟨hw, rfl, rfl⟩
  · obtain ⟨rfl, _⟩ := h
    rw [pickndrop_eq]
    split
    · exact ⟨Grid.setP_WF _ hw _ _, rfl, rfl⟩
    · exact ⟨hw, rfl, rfl⟩
  · have : s' = (moveObstacles s d).1 := by rw [h]
    subst this
    rw [moveObstacles_eq]
    have hinv := obstaclesFold_inv (s.grid.find fun o => o.isKind .obstacle) s.grid d hw
      (Grid.find_nodup _ _)
      (fun p hp => by rw [Grid.mem_find] at hp; exact ⟨hp.1, isKind_obstacle _ hp.2⟩)
    exact ⟨hinv.1, hinv.2.1, hinv.2.2.1⟩
  · obtain ⟨rfl, _⟩ := h
    rcases actuateDoor_eq s a with ⟨_, c, _, he⟩ | ⟨_, he⟩ <;> rw [he]
    · exact ⟨Grid.setP_WF _ hw _ _, rfl, rfl⟩
    · exact ⟨hw, rfl, rfl⟩
  · obtain ⟨rfl, _⟩ := h
    rcases actuateBox_eq s a with ⟨c, _, _, _, he⟩ | ⟨_, he⟩ <;> rw [he]
    · exact ⟨Grid.setP_WF _ hw _ _, rfl, rfl⟩
    · exact ⟨hw, rfl, rfl⟩
  · have := (teleport_ok s s' d d' h).1
    rw [this]; exact ⟨hw, rfl, rfl⟩

theorem runChain_shape (fs : List TransAtom) (s s' : State) (a : Action) (d d' : DrawSt)
    (hw : s.grid.WF) (h : runChain fs s a d = .ok (s', d')) :
    s'.grid.WF ∧ s'.grid.h = s.grid.h ∧ s'.grid.w = s.grid.w := by
  induction fs generalizing s d with
  | nil => simp only [runChain, Except.ok.injEq, Prod.mk.injEq] at h; obtain ⟨rfl, _⟩ := h; exact ⟨hw, rfl, rfl⟩
  | cons f fs ih =>
    simp only [runChain] at h
    split at h
    · cases h
    · rename_i s1 d1 h1
      obtain ⟨w1, e1, e2⟩ := atom_run_shape f s s1 a d d1 hw h1
      obtain ⟨w2, e3, e4⟩ := ih s1 d1 w1 h
      exact ⟨w2, by omega, by omega⟩

/-- the grid transitions that leave the grid untouched -/
theorem atom_grid_frame (f : TransAtom) (s s' : State) (a : Action) (d d' : DrawSt)
    (hf : f = .moveAgent ∨ f = .turnAgent ∨ f = .teleport) (h : f.run s a d = .ok (s', d')) :
    s'.grid = s.grid := by
  rcases hf with rfl | rfl | rfl <;> simp only [TransAtom.run, Except.ok.injEq, Prod.mk.injEq] at h
  · obtain ⟨rfl, _⟩ := h
    unfold moveAgent; simp only []
    repeat' split
    all_goals rfl
  · obtain ⟨rfl, _⟩ := h
    unfold turnAgent
    cases a.turnOrient <;> rfl
  · exact (teleport_ok s s' d d' h).1

end GV
