/-
  Walking: following straight segments with the relative move actions, under any chain that starts
  with `move_agent` and whose other members stay quiet on move actions.
-/
import GridVerse.Model.Win
import GridVerse.Lemmas.Grid
set_option linter.unusedSimpArgs false
namespace GV

theorem checkPlan_sound_step (fs : List TransAtom) (stop : State → Action → State → Bool) (goal : State → Bool)
    (s s' : State) (a : Action) (as : List Action) (d d' : DrawSt)
    (hrun : runChain fs s a d = .ok (s', d')) (hok : goal s' = true ∨ stop s a s' = false)
    (hrest : checkPlan fs stop goal s' as d' = true) : checkPlan fs stop goal s (a :: as) d = true := by
  simp only [checkPlan, hrun, hrest, Bool.and_true, Bool.or_eq_true, Bool.not_eq_true']
  right
  rcases hok with h | h
  · left; exact h
  · right; exact h

/-! ### the relative move for an absolute direction -/

theorem nextPos_moveToward (p : Pos) (o dir : Orient) :
    nextPos p o (moveToward o dir) = p.add (Pos.ofOrient dir) := by
  cases o <;> cases dir <;> rfl

theorem moveToward_isMove (o dir : Orient) : (moveToward o dir).isMove = true := by
  cases o <;> cases dir <;> rfl

/-- the state with the agent moved to `c` -/
def withPos (s : State) (c : Pos) : State := { s with agent := { s.agent with pos := c } }

@[simp] theorem withPos_grid (s : State) (c : Pos) : (withPos s c).grid = s.grid := rfl
@[simp] theorem withPos_pos (s : State) (c : Pos) : (withPos s c).agent.pos = c := rfl
@[simp] theorem withPos_o (s : State) (c : Pos) : (withPos s c).agent.o = s.agent.o := rfl
@[simp] theorem withPos_held (s : State) (c : Pos) : (withPos s c).agent.held = s.agent.held := rfl
@[simp] theorem withPos_withPos (s : State) (c c' : Pos) : withPos (withPos s c) c' = withPos s c' := rfl
theorem withPos_self (s : State) : withPos s s.agent.pos = s := rfl

theorem moveAgent_toward (s : State) (dir : Orient)
    (hc : s.grid.contains (s.agent.pos.add (Pos.ofOrient dir)) = true)
    (hb : (s.grid.at (s.agent.pos.add (Pos.ofOrient dir))).blocksMovement = false) :
    moveAgent s (moveToward s.agent.o dir) = withPos s (s.agent.pos.add (Pos.ofOrient dir)) := by
  simp only [moveAgent, moveToward_isMove, nextPos_moveToward, hc, hb, if_true, Bool.false_eq_true, if_false]
  rfl

/-! ### the rest of the chain stays quiet on a move action -/

structure RestQuiet (rest : List TransAtom) (s : State) : Prop where
  noMove : TransAtom.moveAgent ∉ rest
  tele : TransAtom.teleport ∈ rest → s.grid.WF ∧ s.grid.contains s.agent.pos = true ∧
    (s.grid.at s.agent.pos).isKind .telepod = false
  obst : TransAtom.moveObstacles ∈ rest → s.grid.find (fun o => o.isKind .obstacle) = []

theorem rest_quiet_run (rest : List TransAtom) (s : State) (a : Action) (d : DrawSt) (ha : a.isMove = true)
    (q : RestQuiet rest s) : runChain rest s a d = .ok (s, d) := by
  induction rest with
  | nil => rfl
  | cons f fs ih =>
    have q' : RestQuiet fs s :=
      ⟨fun h => q.noMove (List.mem_cons_of_mem _ h), fun h => q.tele (List.mem_cons_of_mem _ h),
       fun h => q.obst (List.mem_cons_of_mem _ h)⟩
    have hf : f.run s a d = .ok (s, d) := by
      cases f with
      | moveAgent => exact absurd (List.mem_cons_self ..) q.noMove
      | turnAgent => cases a <;> first | rfl | cases ha
      | pickndrop => cases a <;> first | rfl | cases ha
      | actuateDoor => cases a <;> first | rfl | cases ha
      | actuateBox => cases a <;> first | rfl | cases ha
      | moveObstacles =>
        have := q.obst (List.mem_cons_self ..)
        simp only [TransAtom.run, moveObstacles, this, List.foldl_nil]
      | teleport =>
        obtain ⟨wf, hc, ht⟩ := q.tele (List.mem_cons_self ..)
        simp only [TransAtom.run, teleport, Grid.pyGet_of_contains _ wf _ hc, ht, Bool.false_eq_true, if_false]
    simp only [runChain, hf, ih q']

/-- one step in an absolute direction under a chain `move_agent :: rest` -/
theorem step_toward (rest : List TransAtom) (s : State) (dir : Orient) (d : DrawSt)
    (hc : s.grid.contains (s.agent.pos.add (Pos.ofOrient dir)) = true)
    (hb : (s.grid.at (s.agent.pos.add (Pos.ofOrient dir))).blocksMovement = false)
    (q : RestQuiet rest (withPos s (s.agent.pos.add (Pos.ofOrient dir)))) :
    runChain (.moveAgent :: rest) s (moveToward s.agent.o dir) d =
      .ok (withPos s (s.agent.pos.add (Pos.ofOrient dir)), d) := by
  simp only [runChain, TransAtom.run, moveAgent_toward s dir hc hb]
  exact rest_quiet_run rest _ _ d (moveToward_isMove _ _) q

/-! ### straight segments -/

/-- `k` cells from `p` in direction `dir` -/
def shift (p : Pos) (dir : Orient) (k : Nat) : Pos :=
  ⟨p.y + (k : Int) * (Pos.ofOrient dir).y, p.x + (k : Int) * (Pos.ofOrient dir).x⟩

theorem shift_zero (p : Pos) (dir : Orient) : shift p dir 0 = p := by
  simp [shift]

theorem shift_succ (p : Pos) (dir : Orient) (k : Nat) :
    shift p dir (k + 1) = (shift p dir k).add (Pos.ofOrient dir) := by
  simp only [shift, Pos.add, Pos.mk.injEq]
  constructor <;> (push_cast; rw [Int.add_mul]; omega)

theorem shift_one_shift (p : Pos) (dir : Orient) (k : Nat) :
    shift (shift p dir 1) dir k = shift p dir (k + 1) := by
  simp only [shift, Pos.mk.injEq]
  constructor <;> (push_cast; rw [Int.add_mul]; omega)

/-- what a cell must satisfy for the agent to step onto it and carry on: inside, not blocking, the
rest of the chain quiet there, and not a terminating arrival (unless it is the goal) -/
structure Pass (rest : List TransAtom) (stop : State → Action → State → Bool) (goal : State → Bool)
    (s : State) (c : Pos) : Prop where
  inside : s.grid.contains c = true
  free : (s.grid.at c).blocksMovement = false
  quiet : RestQuiet rest (withPos s c)
  go : goal (withPos s c) = true ∨
    ∀ s0 a, s0.grid = s.grid → nextPos s0.agent.pos s0.agent.o a = c → stop s0 a (withPos s c) = false

/-- walking `n` cells in direction `dir` over passable cells, then continuing with `more` -/
theorem walk_then (rest : List TransAtom) (stop : State → Action → State → Bool) (goal : State → Bool)
    (dir : Orient) (n : Nat) (s : State) (more : List Action) (d : DrawSt)
    (hpass : ∀ k, 1 ≤ k → k ≤ n → Pass rest stop goal s (shift s.agent.pos dir k))
    (hmore : checkPlan (.moveAgent :: rest) stop goal (withPos s (shift s.agent.pos dir n)) more d = true) :
    checkPlan (.moveAgent :: rest) stop goal s (walk s.agent.o dir n ++ more) d = true := by
  induction n generalizing s with
  | zero =>
    simp only [walk, List.replicate_zero, List.nil_append]
    rw [shift_zero] at hmore
    exact hmore
  | succ n ih =>
    have p1 := hpass 1 (Nat.le_refl _) (by omega)
    have e1 : shift s.agent.pos dir 1 = s.agent.pos.add (Pos.ofOrient dir) := by
      rw [shift_succ, shift_zero]
    rw [e1] at p1
    simp only [walk, List.replicate_succ, List.cons_append]
    apply checkPlan_sound_step _ _ _ s (withPos s (s.agent.pos.add (Pos.ofOrient dir))) _ _ d d
    · exact step_toward rest s dir d p1.inside p1.free p1.quiet
    · rcases p1.go with h | h
      · exact Or.inl h
      · exact Or.inr (h s _ rfl (nextPos_moveToward _ _ _))
    · have := ih (withPos s (s.agent.pos.add (Pos.ofOrient dir))) (by
        intro k hk1 hk2
        have pk := hpass (k + 1) (by omega) (by omega)
        simp only [withPos_pos]
        rw [← e1, shift_one_shift]
        exact ⟨pk.inside, pk.free, pk.quiet, pk.go⟩) (by
        simp only [withPos_pos, withPos_withPos]
        rw [← e1, shift_one_shift]
        exact hmore)
      exact this

/-! ### L-shaped plans -/

/-- `v` lies on the way from `a` (exclusive) to `b` (inclusive) -/
def Btw (a b v : Int) : Prop := (a < v ∧ v ≤ b) ∨ (b ≤ v ∧ v < a)

theorem shift_vert (p : Pos) (ty : Int) (k : Nat) (hk : k ≤ (ty - p.y).natAbs) :
    shift p (if ty < p.y then .F else .B) k = ⟨if ty < p.y then p.y - k else p.y + k, p.x⟩ := by
  by_cases h : ty < p.y
  · simp only [h, if_true, shift, Pos.ofOrient, Pos.mk.injEq]; constructor <;> omega
  · simp only [h, if_false, shift, Pos.ofOrient, Pos.mk.injEq]; constructor <;> omega

theorem shift_horiz (p : Pos) (tx : Int) (k : Nat) (hk : k ≤ (tx - p.x).natAbs) :
    shift p (if tx < p.x then .L else .R) k = ⟨p.y, if tx < p.x then p.x - k else p.x + k⟩ := by
  by_cases h : tx < p.x
  · simp only [h, if_true, shift, Pos.ofOrient, Pos.mk.injEq]; constructor <;> omega
  · simp only [h, if_false, shift, Pos.ofOrient, Pos.mk.injEq]; constructor <;> omega

/-- column first, then row: every cell strictly after the start on the column segment and on the
row segment is passable -/
theorem lplan_then (rest : List TransAtom) (stop : State → Action → State → Bool) (goal : State → Bool)
    (s : State) (q : Pos) (more : List Action) (d : DrawSt)
    (hv : ∀ y, Btw s.agent.pos.y q.y y → Pass rest stop goal s ⟨y, s.agent.pos.x⟩)
    (hh : ∀ x, Btw s.agent.pos.x q.x x → Pass rest stop goal s ⟨q.y, x⟩)
    (hmore : checkPlan (.moveAgent :: rest) stop goal (withPos s q) more d = true) :
    checkPlan (.moveAgent :: rest) stop goal s (lPlan s.agent.o s.agent.pos q ++ more) d = true := by
  unfold lPlan
  rw [List.append_assoc]
  apply walk_then
  · intro k hk1 hk2
    rw [shift_vert _ _ _ hk2]
    apply hv
    unfold Btw
    by_cases h : q.y < s.agent.pos.y
    · simp only [h, if_true]; omega
    · simp only [h, if_false]; omega
  · rw [shift_vert _ _ _ (Nat.le_refl _)]
    have hcorner : (⟨if q.y < s.agent.pos.y then s.agent.pos.y - ((q.y - s.agent.pos.y).natAbs : Int)
        else s.agent.pos.y + ((q.y - s.agent.pos.y).natAbs : Int), s.agent.pos.x⟩ : Pos) = ⟨q.y, s.agent.pos.x⟩ := by
      by_cases h : q.y < s.agent.pos.y
      · simp only [h, if_true, Pos.mk.injEq, and_true]; omega
      · simp only [h, if_false, Pos.mk.injEq, and_true]; omega
    rw [hcorner]
    have := walk_then rest stop goal (if q.x < s.agent.pos.x then .L else .R) (q.x - s.agent.pos.x).natAbs
      (withPos s ⟨q.y, s.agent.pos.x⟩) more d
    simp only [withPos_pos, withPos_o, withPos_withPos] at this
    apply this
    · intro k hk1 hk2
      have e := shift_horiz ⟨q.y, s.agent.pos.x⟩ q.x k hk2
      simp only at e
      rw [e]
      have pc := hh (if q.x < s.agent.pos.x then s.agent.pos.x - k else s.agent.pos.x + k) (by
        unfold Btw
        by_cases h : q.x < s.agent.pos.x
        · simp only [h, if_true]; omega
        · simp only [h, if_false]; omega)
      exact ⟨pc.inside, pc.free, pc.quiet, pc.go⟩
    · have e := shift_horiz ⟨q.y, s.agent.pos.x⟩ q.x _ (Nat.le_refl _)
      simp only at e
      rw [e]
      have hend : (⟨q.y, if q.x < s.agent.pos.x then s.agent.pos.x - ((q.x - s.agent.pos.x).natAbs : Int)
          else s.agent.pos.x + ((q.x - s.agent.pos.x).natAbs : Int)⟩ : Pos) = q := by
        rw [Pos.ext_iff']
        refine ⟨rfl, ?_⟩
        show (if q.x < s.agent.pos.x then s.agent.pos.x - ((q.x - s.agent.pos.x).natAbs : Int)
          else s.agent.pos.x + ((q.x - s.agent.pos.x).natAbs : Int)) = q.x
        split <;> omega
      rw [hend]
      exact hmore

end GV
