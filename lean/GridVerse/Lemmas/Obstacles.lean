/-
  `move_obstacles`: what one turn does, and the invariant of the whole sweep.
-/
import GridVerse.Model.Transition
import GridVerse.Lemmas.Positions
set_option linter.unusedSimpArgs false
namespace GV

theorem drawChoice_some_lt (n : Nat) (d d' : DrawSt) (i : Nat) (h : drawChoice n d = (some i, d')) :
    i < n := by
  unfold drawChoice at h
  simp only at h
  split at h
  · cases h
  · rename_i hn
    simp only [Prod.mk.injEq, Option.some.injEq] at h
    rw [← h.1]
    exact Nat.mod_lt _ (Nat.pos_of_ne_zero hn)

theorem drawChoice_none_iff (n : Nat) (d : DrawSt) : (drawChoice n d).1 = none ↔ n = 0 := by
  unfold drawChoice
  simp only
  split <;> simp_all

/-- for every `i < n` there is an answer stream making `rng.choice(n)` return `i` -/
theorem drawChoice_attain (n i : Nat) (h : i < n) (log : List Req) (rest : List Nat) :
    (drawChoice n ⟨i :: rest, log⟩).1 = some i := by
  unfold drawChoice
  have hn : n ≠ 0 := by omega
  simp [hn, DrawSt.note, DrawSt.pop, Nat.mod_eq_of_lt h]

theorem drawChoice_cons (n i : Nat) (rest : List Nat) (log : List Req) (h : i < n) :
    drawChoice n ⟨i :: rest, log⟩ = (some i, ⟨rest, log ++ [.choice n]⟩) := by
  unfold drawChoice
  have hn : n ≠ 0 := by omega
  simp [hn, DrawSt.note, DrawSt.pop, Nat.mod_eq_of_lt h]

theorem drawChoice_zero (d : DrawSt) : drawChoice 0 d = (none, d.note (.choice 0)) := by
  simp [drawChoice]

theorem isKind_floor (o : Obj) (h : o.isKind .floor = true) : o = .floor := by
  cases o <;> simp [Obj.isKind, Obj.kind] at h ⊢
theorem isKind_obstacle (o : Obj) (h : o.isKind .obstacle = true) : o = .obstacle := by
  cases o <;> simp [Obj.isKind, Obj.kind] at h ⊢

/-- the free neighbours an obstacle at `p` can move to -/
def freeNbrs (g : Grid) (p : Pos) : List Pos :=
  (manhattanBoundary p 1).filter fun q => g.contains q && (g.at q).isKind .floor

theorem mem_freeNbrs (g : Grid) (p n : Pos) :
    n ∈ freeNbrs g p ↔ n ∈ manhattanBoundary p 1 ∧ g.contains n = true ∧ g.at n = .floor := by
  simp only [freeNbrs, List.mem_filter, Bool.and_eq_true]
  constructor
  · rintro ⟨h1, h2, h3⟩; exact ⟨h1, h2, isKind_floor _ h3⟩
  · rintro ⟨h1, h2, h3⟩; exact ⟨h1, h2, by rw [h3]; rfl⟩

theorem mem_boundary1 (p n : Pos) :
    n ∈ manhattanBoundary p 1 ↔
      n = ⟨p.y - 1, p.x⟩ ∨ n = ⟨p.y, p.x + 1⟩ ∨ n = ⟨p.y + 1, p.x⟩ ∨ n = ⟨p.y, p.x - 1⟩ := by
  simp [manhattanBoundary, List.range_succ]

theorem obstacleStep_def (g : Grid) (p : Pos) (d : DrawSt) :
    obstacleStep g p d =
      match drawChoice (freeNbrs g p).length d with
      | (none, d) => (g, d)
      | (some i, d) => (g.swap p ((freeNbrs g p).getD i p), d) := rfl

/-- one turn: nothing happens exactly when there is no free neighbour, otherwise the obstacle is
swapped with one of them -/
theorem obstacleStep_cases (g : Grid) (p : Pos) (d : DrawSt) :
    (freeNbrs g p = [] ∧ (obstacleStep g p d).1 = g) ∨
    (∃ n, n ∈ freeNbrs g p ∧ (obstacleStep g p d).1 = g.swap p n) := by
  unfold obstacleStep
  simp only
  change (freeNbrs g p = [] ∧ (match drawChoice (freeNbrs g p).length d with
      | (none, d) => (g, d)
      | (some i, d) => (g.swap p ((freeNbrs g p).getD i p), d)).1 = g) ∨ _
  cases hc : drawChoice (freeNbrs g p).length d with
  | mk oi d' =>
    cases oi with
    | none =>
      left
      have := (drawChoice_none_iff (freeNbrs g p).length d).mp (by rw [hc])
      exact ⟨List.eq_nil_of_length_eq_zero this, rfl⟩
    | some i =>
      right
      have hi := drawChoice_some_lt _ _ _ _ hc
      refine ⟨(freeNbrs g p)[i], List.getElem_mem hi, ?_⟩
      have hc' := hc
      unfold freeNbrs at hc' hi
      rw [hc']
      simp [freeNbrs, hi]

/-- the sweep of `move_obstacles` over a list of positions -/
def obstaclesFold (ps : List Pos) (g : Grid) (d : DrawSt) : Grid × DrawSt :=
  ps.foldl (fun (acc : Grid × DrawSt) p => obstacleStep acc.1 p acc.2) (g, d)

theorem moveObstacles_eq (s : State) (d : DrawSt) :
    moveObstacles s d =
      ({ s with grid := (obstaclesFold (s.grid.find fun o => o.isKind .obstacle) s.grid d).1 },
       (obstaclesFold (s.grid.find fun o => o.isKind .obstacle) s.grid d).2) := rfl

theorem obstaclesFold_cons (p : Pos) (ps : List Pos) (g : Grid) (d : DrawSt) :
    obstaclesFold (p :: ps) g d = obstaclesFold ps (obstacleStep g p d).1 (obstacleStep g p d).2 := rfl

/-- Invariant of the sweep: the grid stays well-formed with the same shape, and every cell is
unchanged, or went floor → obstacle, or is one of the swept positions and went obstacle → floor. -/
theorem obstaclesFold_inv (ps : List Pos) (g : Grid) (d : DrawSt) (hg : g.WF) (hnd : ps.Nodup)
    (hobs : ∀ p ∈ ps, g.contains p = true ∧ g.at p = .obstacle) :
    (obstaclesFold ps g d).1.WF ∧ (obstaclesFold ps g d).1.h = g.h ∧ (obstaclesFold ps g d).1.w = g.w ∧
    ∀ q, (obstaclesFold ps g d).1.at q = g.at q ∨
         (g.at q = .floor ∧ (obstaclesFold ps g d).1.at q = .obstacle) ∨
         (q ∈ ps ∧ g.at q = .obstacle ∧ (obstaclesFold ps g d).1.at q = .floor) := by
  induction ps generalizing g d with
  | nil => exact ⟨hg, rfl, rfl, fun q => Or.inl rfl⟩
  | cons p ps ih =>
    rw [obstaclesFold_cons]
    have hp := hobs p (by simp)
    have hnd' : ps.Nodup := (List.nodup_cons.mp hnd).2
    have hpn : p ∉ ps := (List.nodup_cons.mp hnd).1
    rcases obstacleStep_cases g p d with ⟨_, hstep⟩ | ⟨n, hn, hstep⟩
    · -- no free neighbour: grid unchanged
      rw [hstep]
      obtain ⟨h1, h2, h3, h4⟩ := ih g (obstacleStep g p d).2 hg hnd'
        (fun q hq => hobs q (by simp [hq]))
      refine ⟨h1, h2, h3, ?_⟩
      intro q
      rcases h4 q with h | h | ⟨hq, h⟩
      · exact Or.inl h
      · exact Or.inr (Or.inl h)
      · exact Or.inr (Or.inr ⟨by simp [hq], h⟩)
    · -- swapped with the free neighbour n
      rw [hstep]
      rw [mem_freeNbrs] at hn
      obtain ⟨_, hnc, hnf⟩ := hn
      have hg1 : (g.swap p n).WF := Grid.swap_WF g hg p n
      have hat : ∀ r, (g.swap p n).at r = if r = n then g.at p else if r = p then g.at n else g.at r :=
        Grid.at_swap g hg p n hp.1 hnc
      have hobs' : ∀ q ∈ ps, (g.swap p n).contains q = true ∧ (g.swap p n).at q = .obstacle := by
        intro q hq
        have hq' := hobs q (by simp [hq])
        refine ⟨by simpa using hq'.1, ?_⟩
        rw [hat]
        have hqn : q ≠ n := by
          intro h; subst h; rw [hnf] at hq'; cases hq'.2
        have hqp : q ≠ p := by
          intro h; subst h; exact hpn hq
        simp [hqn, hqp, hq'.2]
      obtain ⟨h1, h2, h3, h4⟩ := ih (g.swap p n) (obstacleStep g p d).2 hg1 hnd' hobs'
      refine ⟨h1, by simpa using h2, by simpa using h3, ?_⟩
      intro q
      have hq := h4 q
      rw [hat q] at hq
      by_cases hqn : q = n
      · subst hqn
        simp only [if_true] at hq
        rcases hq with h | ⟨h, _⟩ | ⟨hmem, _, _⟩
        · right; left; exact ⟨hnf, by rw [h, hp.2]⟩
        · rw [hp.2] at h; cases h
        · exfalso
          have := (hobs q (by simp [hmem])).2
          rw [hnf] at this; cases this
      · by_cases hqp : q = p
        · subst hqp
          simp only [hqn, if_false, if_true] at hq
          rcases hq with h | ⟨_, h⟩ | ⟨hmem, _, _⟩
          · right; right; exact ⟨by simp, hp.2, by rw [h, hnf]⟩
          · left; rw [h, hp.2]
          · exact absurd hmem hpn
        · simp only [hqn, hqp, if_false] at hq
          rcases hq with h | h | ⟨hmem, h⟩
          · exact Or.inl h
          · exact Or.inr (Or.inl h)
          · exact Or.inr (Or.inr ⟨by simp [hmem], h⟩)

end GV
