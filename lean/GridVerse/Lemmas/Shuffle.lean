/-
  `rng.shuffle` as a permutation: counting is invariant; insertion sort.
-/
import GridVerse.Lemmas.Draw
import GridVerse.Model.Reset
set_option linter.unusedSimpArgs false
namespace GV

/-- a duplicate-free list of `n` numbers below `n` contains every number below `n` -/
theorem nodup_range_complete (l : List Nat) (n : Nat) (hnd : l.Nodup) (hlen : l.length = n)
    (hlt : ∀ i ∈ l, i < n) : ∀ a, a < n → a ∈ l := by
  intro a ha
  cases hm : decide (a ∈ l) with
  | true => exact of_decide_eq_true hm
  | false =>
    have hnot : a ∉ l := of_decide_eq_false hm
    have hsub : l ⊆ (List.range n).erase a := by
      intro x hx
      have hxa : x ≠ a := fun h => hnot (h ▸ hx)
      exact (List.mem_erase_of_ne hxa).2 (List.mem_range.mpr (hlt x hx))
    have := List.Nodup.length_le_of_subset hnd hsub
    rw [List.length_erase] at this
    simp [List.mem_range.mpr ha, hlen] at this
    omega

/-- the result of a shuffle is a permutation of `range n` -/
theorem shuffle_perm (n : Nat) (d : DrawSt) : (drawShuffle n d).1.Perm (List.range n) := by
  obtain ⟨hl, hnd, hlt⟩ := drawShuffle_spec n d
  rw [List.perm_ext_iff_of_nodup hnd List.nodup_range]
  intro a
  constructor
  · intro h; exact List.mem_range.mpr (hlt a h)
  · intro h; exact nodup_range_complete _ n hnd hl hlt a (List.mem_range.mp h)

theorem map_getD_range {α : Type} (l : List α) (dflt : α) : (List.range l.length).map (fun i => l.getD i dflt) = l := by
  apply List.ext_getElem
  · simp
  · intro i h1 h2
    simp only [List.getElem_map, List.getElem_range, List.getD]
    simp at h1
    simp [h1]

/-- reading a list through a shuffled index vector gives a permutation of the list -/
theorem shuffled_perm {α : Type} (l : List α) (dflt : α) (d : DrawSt) :
    ((drawShuffle l.length d).1.map fun i => l.getD i dflt).Perm l := by
  have := (shuffle_perm l.length d).map (fun i => l.getD i dflt)
  rw [map_getD_range] at this
  exact this

/-! ### insertion sort -/

/-- non-decreasing -/
def Sorted : List Int → Prop
  | a :: b :: rest => a ≤ b ∧ Sorted (b :: rest)
  | _ => True

theorem insertSorted_perm (x : Int) (l : List Int) : (insertSorted x l).Perm (x :: l) := by
  induction l with
  | nil => exact List.Perm.refl _
  | cons y ys ih =>
    simp only [insertSorted]
    split
    · exact List.Perm.refl _
    · exact (List.Perm.cons y ih).trans (List.Perm.swap x y ys)

theorem sortInts_perm (l : List Int) : (sortInts l).Perm l := by
  induction l with
  | nil => exact List.Perm.refl _
  | cons x xs ih =>
    simp only [sortInts, List.foldr_cons]
    exact (insertSorted_perm x _).trans (List.Perm.cons x ih)

theorem Sorted.tail {a : Int} {l : List Int} (h : Sorted (a :: l)) : Sorted l := by
  cases l with
  | nil => trivial
  | cons b rest => exact h.2

theorem sorted_cons {a : Int} {l : List Int} (hs : Sorted l) (h : ∀ x ∈ l, a ≤ x) : Sorted (a :: l) := by
  cases l with
  | nil => trivial
  | cons b rest => exact ⟨h b (List.mem_cons_self ..), hs⟩

theorem Sorted.head_le {a : Int} {l : List Int} (h : Sorted (a :: l)) : ∀ x ∈ l, a ≤ x := by
  induction l generalizing a with
  | nil => intro x hx; cases hx
  | cons b rest ih =>
    intro x hx
    rcases List.mem_cons.mp hx with rfl | hx
    · exact h.1
    · have := ih h.2 x hx; have := h.1; omega

theorem insertSorted_sorted (x : Int) (l : List Int) (hs : Sorted l) : Sorted (insertSorted x l) := by
  induction l with
  | nil => trivial
  | cons y ys ih =>
    simp only [insertSorted]
    split
    · rename_i hxy
      exact ⟨hxy, hs⟩
    · rename_i hxy
      apply sorted_cons (ih hs.tail)
      intro z hz
      have := (insertSorted_perm x ys).subset hz
      rcases List.mem_cons.mp this with rfl | hz'
      · omega
      · exact hs.head_le z hz'

theorem sortInts_sorted (l : List Int) : Sorted (sortInts l) := by
  induction l with
  | nil => trivial
  | cons x xs ih =>
    simp only [sortInts, List.foldr_cons]
    exact insertSorted_sorted x _ ih

end GV
