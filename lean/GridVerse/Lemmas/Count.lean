/-
  Counting objects under assignment and swap.
-/
import GridVerse.Lemmas.Rot
import GridVerse.Lemmas.Atoms
set_option linter.unusedSimpArgs false
namespace GV

/-- indicator -/
def ind (p : Obj → Bool) (o : Obj) : Nat := if p o then 1 else 0

theorem sumTo_update (n k : Nat) (f g : Nat → Nat) (hk : k < n)
    (h : ∀ i, i < n → i ≠ k → f i = g i) : sumTo n f + g k = sumTo n g + f k := by
  induction n with
  | zero => omega
  | succ n ih =>
    simp only [sumTo]
    by_cases hkn : k = n
    · subst hkn
      have : sumTo k f = sumTo k g := sumTo_congr k f g (fun i hi => h i (by omega) (by omega))
      omega
    · have := ih (by omega) (fun i hi hne => h i (by omega) hne)
      have hn := h n (by omega) (fun e => hkn e.symm)
      omega

theorem Grid.count_set (g : Grid) (hg : g.WF) (y x : Nat) (hy : y < g.h) (hx : x < g.w) (o : Obj)
    (p : Obj → Bool) :
    (g.set y x o).count p + ind p (g.cell y x) = g.count p + ind p o := by
  rw [Grid.count_eq_sum _ (Grid.set_WF g hg y x o), Grid.count_eq_sum g hg]
  simp only [Grid.set_h, Grid.set_w]
  have hrow : ∀ i, i < g.h → i ≠ y →
      sumTo g.w (fun j => if p ((g.set y x o).cell i j) then 1 else 0) =
      sumTo g.w (fun j => if p (g.cell i j) then 1 else 0) := by
    intro i _ hne
    apply sumTo_congr; intro j _
    rw [Grid.cell_set_WF g hg y x i j o hy hx]
    simp [hne]
  have hy' : sumTo g.w (fun j => if p ((g.set y x o).cell y j) then 1 else 0) + ind p (g.cell y x) =
      sumTo g.w (fun j => if p (g.cell y j) then 1 else 0) + ind p o := by
    have := sumTo_update g.w x (fun j => if p ((g.set y x o).cell y j) then 1 else 0)
      (fun j => if p (g.cell y j) then 1 else 0) hx (by
        intro j _ hne
        rw [Grid.cell_set_WF g hg y x y j o hy hx]
        simp [hne])
    rw [Grid.cell_set_WF g hg y x y x o hy hx] at this
    simp only [and_self, if_true] at this
    unfold ind
    omega
  have := sumTo_update g.h y
    (fun i => sumTo g.w (fun j => if p ((g.set y x o).cell i j) then 1 else 0))
    (fun i => sumTo g.w (fun j => if p (g.cell i j) then 1 else 0)) hy hrow
  omega

theorem Grid.count_setP (g : Grid) (hg : g.WF) (q : Pos) (hq : g.contains q = true) (o : Obj)
    (p : Obj → Bool) :
    (g.setP q o).count p + ind p (g.at q) = g.count p + ind p o := by
  rw [Grid.at_of_contains g q hq]
  rw [Grid.contains_iff] at hq
  exact Grid.count_set g hg _ _ (by omega) (by omega) o p

theorem Grid.count_swap (g : Grid) (hg : g.WF) (a b : Pos) (ha : g.contains a = true)
    (hb : g.contains b = true) (p : Obj → Bool) : (g.swap a b).count p = g.count p := by
  unfold Grid.swap
  simp only []
  have h1 := Grid.count_setP g hg a ha (g.at b) p
  have h2 := Grid.count_setP (g.setP a (g.at b)) (Grid.setP_WF g hg _ _) b (by simpa using hb) (g.at a) p
  rw [Grid.at_setP g hg a _ ha] at h2
  by_cases hba : b = a
  · subst hba; simp only [if_true] at h2; omega
  · simp only [hba, if_false] at h2; omega

theorem obstaclesFold_count (ps : List Pos) (g : Grid) (d : DrawSt) (hg : g.WF)
    (hps : ∀ q ∈ ps, g.contains q = true) (p : Obj → Bool) :
    (obstaclesFold ps g d).1.count p = g.count p := by
  induction ps generalizing g d with
  | nil => rfl
  | cons q ps ih =>
    rw [obstaclesFold_cons]
    rcases obstacleStep_cases g q d with ⟨_, hstep⟩ | ⟨n, hn, hstep⟩
    · rw [hstep]
      exact ih g _ hg (fun r hr => hps r (by simp [hr]))
    · rw [hstep]
      rw [mem_freeNbrs] at hn
      rw [ih (g.swap q n) _ (Grid.swap_WF g hg q n) (fun r hr => by simpa using hps r (by simp [hr]))]
      exact Grid.count_swap g hg q n (hps q (by simp)) hn.2.1 p

theorem moveObstacles_count (s : State) (d : DrawSt) (hw : s.grid.WF) (p : Obj → Bool) :
    (moveObstacles s d).1.grid.count p = s.grid.count p := by
  rw [moveObstacles_eq]
  exact obstaclesFold_count _ _ _ hw (fun q hq => by rw [Grid.mem_find] at hq; exact hq.1) p

end GV
