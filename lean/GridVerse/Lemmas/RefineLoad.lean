/-
  `pickle.loads` builds a *separated* representation: every object of the copied state gets its own,
  newly allocated node, so the copy satisfies the invariant under which the in-place transition
  functions refine the pure ones (Lemmas/Refine.lean).
-/
import GridVerse.Lemmas.Refine
set_option linter.unusedSimpArgs false
set_option linter.unusedVariables false
namespace GV

/-- `omega` after exposing that references are natural numbers -/
macro "omegaR" : tactic => `(tactic| ((try unfold Ref at *); omega))

/-- the object at `r` denotes `o`, and the references of its content chain lie in `[lo, r]`, each at
one depth only -/
structure Tree (h : Heap) (lo : Nat) (r : Ref) (o : Obj) : Prop where
  den : Denotes h r o
  range : ∀ k x, h.chainAt k r = some x → lo ≤ x ∧ x ≤ r
  inj : ∀ k1 k2 x, h.chainAt k1 r = some x → h.chainAt k2 r = some x → k1 = k2

theorem chainAt_ext {h h' : Heap} (e : Ext h h') (r : Ref) (k : Nat)
    (hb : ∀ j x, h.chainAt j r = some x → x < h.next) : h'.chainAt k r = h.chainAt k r := by
  apply chainAt_congr_on
  intro j x _ hx
  exact e.agree.obj x (hb j x hx)

theorem Tree.stable {h h' : Heap} {lo : Nat} {r : Ref} {o : Obj} (t : Tree h lo r o) (e : Ext h h') (hr : r < h.next) :
    Tree h' lo r o := by
  have hb : ∀ j x, h.chainAt j r = some x → x < h.next := fun j x hx => Nat.lt_of_le_of_lt (t.range j x hx).2 hr
  refine ⟨Denotes.stable e _ _ t.den, ?_, ?_⟩
  · intro k x hx; rw [chainAt_ext e r k hb] at hx; exact t.range k x hx
  · intro k1 k2 x h1 h2
    rw [chainAt_ext e r k1 hb] at h1
    rw [chainAt_ext e r k2 hb] at h2
    exact t.inj k1 k2 x h1 h2

theorem loadObj_tree (o : Obj) (h : Heap) :
    Tree (h.loadObj o).2 h.next (h.loadObj o).1 o ∧ Ext h (h.loadObj o).2 ∧ (h.loadObj o).1 + 1 = (h.loadObj o).2.next := by
  induction o generalizing h with
  | box c ih =>
    obtain ⟨t, e, hn⟩ := ih h
    simp only [Heap.loadObj]
    generalize hc : h.loadObj c = cr at t e hn
    have e2 := ext_newObj cr.2 ⟨.box c, some cr.1⟩
    have hlt : cr.1 < cr.2.next := by omegaR
    have t2 := t.stable e2 hlt
    have hcont : ((cr.2.newObj ⟨.box c, some cr.1⟩).2.objOf cr.2.next).content = some cr.1 := by simp [Heap.newObj]
    refine ⟨⟨?_, ?_, ?_⟩, e.trans e2, by simp [Heap.newObj]⟩
    · unfold Denotes
      exact ⟨by simp [Heap.newObj], by simp [Heap.newObj], cr.1, hcont, t2.den⟩
    · intro k x hx
      show h.next ≤ x ∧ x ≤ cr.2.next
      cases k with
      | zero =>
        simp only [Heap.chainAt, Heap.newObj, Option.some.injEq] at hx
        have := e.next
        omegaR
      | succ k =>
        have hx' : (cr.2.newObj ⟨.box c, some cr.1⟩).2.chainAt k cr.1 = some x := by
          have := hx
          simp only [Heap.chainAt] at this
          rw [show ((cr.2.newObj ⟨.box c, some cr.1⟩).2.objOf (cr.2.newObj ⟨.box c, some cr.1⟩).1).content = some cr.1 from hcont] at this
          exact this
        have := t2.range k x hx'
        omegaR
    · intro k1 k2 x h1 h2
      have step : ∀ k y, (cr.2.newObj ⟨.box c, some cr.1⟩).2.chainAt (k + 1) (cr.2.newObj ⟨.box c, some cr.1⟩).1 = some y →
          (cr.2.newObj ⟨.box c, some cr.1⟩).2.chainAt k cr.1 = some y := by
        intro k y hy
        simp only [Heap.chainAt] at hy
        rw [show ((cr.2.newObj ⟨.box c, some cr.1⟩).2.objOf (cr.2.newObj ⟨.box c, some cr.1⟩).1).content = some cr.1 from hcont] at hy
        exact hy
      have zero : ∀ y, (cr.2.newObj ⟨.box c, some cr.1⟩).2.chainAt 0 (cr.2.newObj ⟨.box c, some cr.1⟩).1 = some y → y = cr.2.next := by
        intro y hy
        simp only [Heap.chainAt, Heap.newObj, Option.some.injEq] at hy
        exact hy.symm
      cases k1 with
      | zero =>
        cases k2 with
        | zero => rfl
        | succ k2 =>
          have a := zero x h1
          have b := (t2.range k2 x (step k2 x h2)).2
          omegaR
      | succ k1 =>
        cases k2 with
        | zero =>
          have a := zero x h2
          have b := (t2.range k1 x (step k1 x h1)).2
          omegaR
        | succ k2 =>
          have := t2.inj k1 k2 x (step k1 x h1) (step k2 x h2)
          omegaR
  | _ =>
    simp only [Heap.loadObj]
    refine ⟨⟨?_, ?_, ?_⟩, ext_newObj _ _, by simp [Heap.newObj]⟩
    · unfold Denotes
      simp [Heap.newObj]
    · intro k x hx
      cases k with
      | zero =>
        simp only [Heap.chainAt, Heap.newObj, Option.some.injEq] at hx
        show h.next ≤ x ∧ x ≤ h.next
        omegaR
      | succ k => simp [Heap.chainAt, Heap.newObj] at hx
    · intro k1 k2 x h1 h2
      cases k1 with
      | zero =>
        cases k2 with
        | zero => rfl
        | succ k2 => simp [Heap.chainAt, Heap.newObj] at h2
      | succ k1 => simp [Heap.chainAt, Heap.newObj] at h1

/-! ### a row of objects -/

/-- the references `rs` are separated trees for the values `row`, all allocated in `[lo, hi)` -/
structure RowTrees (h : Heap) (lo hi : Nat) (rs : List Ref) (row : List Obj) : Prop where
  len : rs.length = row.length
  den : ∀ (j : Nat) (r : Ref) (o : Obj), rs[j]? = some r → row[j]? = some o → Denotes h r o
  range : ∀ (j : Nat) (r : Ref) (k : Nat) (x : Ref), rs[j]? = some r → h.chainAt k r = some x → lo ≤ x ∧ x < hi
  inj : ∀ (j1 j2 : Nat) (r1 r2 : Ref) (k1 k2 : Nat) (x : Ref), rs[j1]? = some r1 → rs[j2]? = some r2 → h.chainAt k1 r1 = some x →
    h.chainAt k2 r2 = some x → j1 = j2 ∧ k1 = k2

theorem RowTrees.stable {h h' : Heap} {lo hi : Nat} {rs : List Ref} {row : List Obj} (t : RowTrees h lo hi rs row)
    (e : Ext h h') (hhi : hi ≤ h.next) : RowTrees h' lo hi rs row := by
  have hb : ∀ j r, rs[j]? = some r → ∀ k x, h.chainAt k r = some x → x < h.next :=
    fun j r hj k x hx => Nat.lt_of_lt_of_le (t.range j r k x hj hx).2 hhi
  refine ⟨t.len, ?_, ?_, ?_⟩
  · intro j r o hj ho; exact Denotes.stable e _ _ (t.den j r o hj ho)
  · intro j r k x hj hx
    rw [chainAt_ext e r k (hb j r hj)] at hx
    exact t.range j r k x hj hx
  · intro j1 j2 r1 r2 k1 k2 x hj1 hj2 h1 h2
    rw [chainAt_ext e r1 k1 (hb j1 r1 hj1)] at h1
    rw [chainAt_ext e r2 k2 (hb j2 r2 hj2)] at h2
    exact t.inj j1 j2 r1 r2 k1 k2 x hj1 hj2 h1 h2

theorem loadList_rowTrees (row : List Obj) (h : Heap) :
    RowTrees (h.loadList Heap.loadObj row).2 h.next (h.loadList Heap.loadObj row).2.next
      (h.loadList Heap.loadObj row).1 row ∧ Ext h (h.loadList Heap.loadObj row).2 := by
  induction row generalizing h with
  | nil =>
    refine ⟨⟨rfl, ?_, ?_, ?_⟩, Ext.refl h⟩ <;> (intros; simp_all [Heap.loadList])
  | cons o os ih =>
    simp only [Heap.loadList]
    obtain ⟨t1, e1, n1⟩ := loadObj_tree o h
    generalize hr : h.loadObj o = r at t1 e1 n1
    obtain ⟨t2, e2⟩ := ih r.2
    generalize hrs : r.2.loadList Heap.loadObj os = rs at t2 e2
    have hr1 : r.1 < r.2.next := by omegaR
    have t1' := t1.stable e2 hr1
    have hnext := e2.next
    refine ⟨⟨by simp [t2.len], ?_, ?_, ?_⟩, e1.trans e2⟩
    · intro j x ob hj ho
      cases j with
      | zero =>
        simp only [List.getElem?_cons_zero, Option.some.injEq] at hj ho
        subst hj; subst ho; exact t1'.den
      | succ j =>
        simp only [List.getElem?_cons_succ] at hj ho
        exact t2.den j x ob hj ho
    · intro j x k y hj hy
      cases j with
      | zero =>
        simp only [List.getElem?_cons_zero, Option.some.injEq] at hj
        subst hj
        have := t1'.range k y hy
        omegaR
      | succ j =>
        simp only [List.getElem?_cons_succ] at hj
        have := t2.range j x k y hj hy
        have := e1.next
        omegaR
    · intro j1 j2 x1 x2 k1 k2 y hj1 hj2 h1 h2
      cases j1 with
      | zero =>
        simp only [List.getElem?_cons_zero, Option.some.injEq] at hj1
        subst hj1
        cases j2 with
        | zero =>
          simp only [List.getElem?_cons_zero, Option.some.injEq] at hj2
          subst hj2
          exact ⟨rfl, t1'.inj k1 k2 y h1 h2⟩
        | succ j2 =>
          simp only [List.getElem?_cons_succ] at hj2
          have a := t1'.range k1 y h1
          have b := t2.range j2 x2 k2 y hj2 h2
          omegaR
      | succ j1 =>
        simp only [List.getElem?_cons_succ] at hj1
        cases j2 with
        | zero =>
          simp only [List.getElem?_cons_zero, Option.some.injEq] at hj2
          subst hj2
          have a := t1'.range k2 y h2
          have b := t2.range j1 x1 k1 y hj1 h1
          omegaR
        | succ j2 =>
          simp only [List.getElem?_cons_succ] at hj2
          have := t2.inj j1 j2 x1 x2 k1 k2 y hj1 hj2 h1 h2
          omegaR


/-! ### the rows of a grid -/

structure GridTrees (h : Heap) (lo hi : Nat) (rrs : List Ref) (cellss : List (List Obj)) : Prop where
  len : rrs.length = cellss.length
  sorted : rrs.Pairwise (fun a b => a < b)
  bound : ∀ (rr : Ref), rr ∈ rrs → lo ≤ rr ∧ rr < hi
  rowLen : ∀ (i : Nat) (rr : Ref) (row : List Obj), rrs[i]? = some rr → cellss[i]? = some row →
    (h.cellsOf rr).length = row.length
  den : ∀ (i : Nat) (rr : Ref) (row : List Obj) (j : Nat) (r : Ref) (o : Obj), rrs[i]? = some rr → cellss[i]? = some row →
    (h.cellsOf rr)[j]? = some r → row[j]? = some o → Denotes h r o
  range : ∀ (i : Nat) (rr : Ref) (j : Nat) (r : Ref) (k : Nat) (x : Ref), rrs[i]? = some rr → (h.cellsOf rr)[j]? = some r →
    h.chainAt k r = some x → lo ≤ x ∧ x < hi
  inj : ∀ (i1 i2 : Nat) (rr1 rr2 : Ref) (j1 j2 : Nat) (r1 r2 : Ref) (k1 k2 : Nat) (x : Ref),
    rrs[i1]? = some rr1 → rrs[i2]? = some rr2 → (h.cellsOf rr1)[j1]? = some r1 → (h.cellsOf rr2)[j2]? = some r2 →
    h.chainAt k1 r1 = some x → h.chainAt k2 r2 = some x → i1 = i2 ∧ j1 = j2 ∧ k1 = k2

theorem loadList_gridTrees (cellss : List (List Obj)) (h : Heap) :
    GridTrees (h.loadList Heap.loadRow cellss).2 h.next (h.loadList Heap.loadRow cellss).2.next
      (h.loadList Heap.loadRow cellss).1 cellss ∧ Ext h (h.loadList Heap.loadRow cellss).2 := by
  induction cellss generalizing h with
  | nil =>
    refine ⟨⟨rfl, List.Pairwise.nil, ?_, ?_, ?_, ?_, ?_⟩, Ext.refl h⟩ <;> (intros; simp_all [Heap.loadList])
  | cons row rest ih =>
    simp only [Heap.loadList, Heap.loadRow]
    obtain ⟨t0, e0⟩ := loadList_rowTrees row h
    generalize hr : h.loadList Heap.loadObj row = r at t0 e0
    have eC := ext_newCells r.2 r.1
    generalize hc : r.2.newCells r.1 = rc at eC
    have hcv : @Eq Nat rc.1 r.2.next ∧ @Eq Nat rc.2.next (r.2.next + 1) ∧ rc.2.cellsOf rc.1 = r.1 := by
      rw [← hc]; simp [Heap.newCells]
    obtain ⟨t2, e2⟩ := ih rc.2
    generalize hrs : rc.2.loadList Heap.loadRow rest = rs at t2 e2
    have e02 : Ext r.2 rs.2 := eC.trans e2
    have t0' := t0.stable e02 (Nat.le_refl _)
    have hn0 := e0.next
    have hn2 := e2.next
    have hcells : rs.2.cellsOf rc.1 = r.1 := by
      rw [e2.agree.cells rc.1 (by omegaR)]; exact hcv.2.2
    refine ⟨⟨by simp [t2.len], ?_, ?_, ?_, ?_, ?_, ?_⟩, e0.trans e02⟩
    · rw [List.pairwise_cons]
      refine ⟨?_, t2.sorted⟩
      intro b hb
      have := (t2.bound b hb).1
      omegaR
    · intro rr hrr
      rcases List.mem_cons.mp hrr with rfl | hrr
      · omegaR
      · have := t2.bound rr hrr
        omegaR
    · intro i rr rw0 hi hw
      cases i with
      | zero =>
        simp only [List.getElem?_cons_zero, Option.some.injEq] at hi hw
        subst hi; subst hw
        rw [hcells]; exact t0.len
      | succ i =>
        simp only [List.getElem?_cons_succ] at hi hw
        exact t2.rowLen i rr rw0 hi hw
    · intro i rr rw0 j x o hi hw hj ho
      cases i with
      | zero =>
        simp only [List.getElem?_cons_zero, Option.some.injEq] at hi hw
        subst hi; subst hw
        rw [hcells] at hj
        exact t0'.den j x o hj ho
      | succ i =>
        simp only [List.getElem?_cons_succ] at hi hw
        exact t2.den i rr rw0 j x o hi hw hj ho
    · intro i rr j x k y hi hj hy
      cases i with
      | zero =>
        simp only [List.getElem?_cons_zero, Option.some.injEq] at hi
        subst hi
        rw [hcells] at hj
        have := t0'.range j x k y hj hy
        omegaR
      | succ i =>
        simp only [List.getElem?_cons_succ] at hi
        have := t2.range i rr j x k y hi hj hy
        omegaR
    · intro i1 i2 rr1 rr2 j1 j2 x1 x2 k1 k2 y hi1 hi2 hj1 hj2 h1 h2
      cases i1 with
      | zero =>
        simp only [List.getElem?_cons_zero, Option.some.injEq] at hi1
        subst hi1
        rw [hcells] at hj1
        cases i2 with
        | zero =>
          simp only [List.getElem?_cons_zero, Option.some.injEq] at hi2
          subst hi2
          rw [hcells] at hj2
          have := t0'.inj j1 j2 x1 x2 k1 k2 y hj1 hj2 h1 h2
          exact ⟨rfl, this.1, this.2⟩
        | succ i2 =>
          simp only [List.getElem?_cons_succ] at hi2
          have a := t0'.range j1 x1 k1 y hj1 h1
          have b := t2.range i2 rr2 j2 x2 k2 y hi2 hj2 h2
          omegaR
      | succ i1 =>
        simp only [List.getElem?_cons_succ] at hi1
        cases i2 with
        | zero =>
          simp only [List.getElem?_cons_zero, Option.some.injEq] at hi2
          subst hi2
          rw [hcells] at hj2
          have a := t0'.range j2 x2 k2 y hj2 h2
          have b := t2.range i1 rr1 j1 x1 k1 y hi1 hj1 h1
          omegaR
        | succ i2 =>
          simp only [List.getElem?_cons_succ] at hi2
          have := t2.inj i1 i2 rr1 rr2 j1 j2 x1 x2 k1 k2 y hi1 hi2 hj1 hj2 h1 h2
          omegaR

theorem GridTrees.stable {h h' : Heap} {lo hi : Nat} {rrs : List Ref} {cellss : List (List Obj)}
    (t : GridTrees h lo hi rrs cellss) (e : Ext h h') (hhi : hi ≤ h.next) : GridTrees h' lo hi rrs cellss := by
  have hcell : ∀ (i : Nat) (rr : Ref), rrs[i]? = some rr → h'.cellsOf rr = h.cellsOf rr := by
    intro i rr hi0
    have := t.bound rr (List.mem_of_getElem? hi0)
    exact e.agree.cells rr (by omegaR)
  have hb : ∀ (i : Nat) (rr : Ref) (j : Nat) (r : Ref), rrs[i]? = some rr → (h.cellsOf rr)[j]? = some r →
      ∀ k x, h.chainAt k r = some x → x < h.next :=
    fun i rr j r hi0 hj k x hx => Nat.lt_of_lt_of_le (t.range i rr j r k x hi0 hj hx).2 hhi
  refine ⟨t.len, t.sorted, t.bound, ?_, ?_, ?_, ?_⟩
  · intro i rr row hi0 hw; rw [hcell i rr hi0]; exact t.rowLen i rr row hi0 hw
  · intro i rr row j r o hi0 hw hj ho
    rw [hcell i rr hi0] at hj
    exact Denotes.stable e _ _ (t.den i rr row j r o hi0 hw hj ho)
  · intro i rr j r k x hi0 hj hx
    rw [hcell i rr hi0] at hj
    rw [chainAt_ext e r k (hb i rr j r hi0 hj)] at hx
    exact t.range i rr j r k x hi0 hj hx
  · intro i1 i2 rr1 rr2 j1 j2 r1 r2 k1 k2 x hi1 hi2 hj1 hj2 h1 h2
    rw [hcell i1 rr1 hi1] at hj1
    rw [hcell i2 rr2 hi2] at hj2
    rw [chainAt_ext e r1 k1 (hb i1 rr1 j1 r1 hi1 hj1)] at h1
    rw [chainAt_ext e r2 k2 (hb i2 rr2 j2 r2 hi2 hj2)] at h2
    exact t.inj i1 i2 rr1 rr2 j1 j2 r1 r2 k1 k2 x hi1 hi2 hj1 hj2 h1 h2


/-! ### the copied state -/

/-- **`pickle.loads` yields a separated representation** of the value it was given -/
theorem load_rep (st : State) (wf : st.grid.WF) (hin : st.grid.contains st.agent.pos = true) (h : Heap) :
    Rep (h.load st).2 (h.load st).1 st := by
  obtain ⟨wl, wr⟩ := wf
  obtain ⟨t1, e1⟩ := loadList_gridTrees st.grid.cells h
  generalize hrows : h.loadList Heap.loadRow st.grid.cells = rows at t1 e1
  have eO := ext_newRows rows.2 rows.1
  generalize hO : rows.2.newRows rows.1 = outer at eO
  have hOv : @Eq Nat outer.1 rows.2.next ∧ outer.2.rowsOf outer.1 = rows.1 ∧ @Eq Nat outer.2.next (rows.2.next + 1) := by
    rw [← hO]; simp [Heap.newRows]
  have eT := ext_newTf outer.2 ⟨st.agent.pos, st.agent.o⟩
  generalize hT : outer.2.newTf ⟨st.agent.pos, st.agent.o⟩ = tf at eT
  have hTv : @Eq Nat tf.1 outer.2.next ∧ @Eq Nat tf.2.next (outer.2.next + 1) ∧ tf.2.tfOf tf.1 = ⟨st.agent.pos, st.agent.o⟩ := by
    rw [← hT]; simp [Heap.newTf]
  obtain ⟨tH, eH, nH⟩ := loadObj_tree st.agent.held tf.2
  generalize hH : tf.2.loadObj st.agent.held = held at tH eH nH
  have eA := ext_newAgent held.2 (tf.1, held.1)
  generalize hA : held.2.newAgent (tf.1, held.1) = ag at eA
  have hAv : @Eq Nat ag.1 held.2.next ∧ ag.2.agentOf ag.1 = (tf.1, held.1) := by
    rw [← hA]; simp [Heap.newAgent]
  have hdef : h.load st = (⟨outer.1, ag.1, st.grid.h, st.grid.w⟩, ag.2) := by
    simp only [Heap.load, hrows, hO, hT, hH, hA]
  rw [hdef]
  -- everything seen from the final heap
  have n1 := e1.next
  have n2 := eO.next
  have n3 := eT.next
  have n4 := eH.next
  have eRowsH : Ext rows.2 ag.2 := eO.trans (eT.trans (eH.trans eA))
  have eOuterH : Ext outer.2 ag.2 := eT.trans (eH.trans eA)
  have eTfH : Ext tf.2 ag.2 := eH.trans eA
  have G := t1.stable eRowsH (Nat.le_refl _)
  have hrowsOf : ag.2.rowsOf outer.1 = rows.1 := by
    rw [eOuterH.agree.rows outer.1 (by omegaR)]; exact hOv.2.1
  have htf : ag.2.tfOf tf.1 = ⟨st.agent.pos, st.agent.o⟩ := by
    rw [eTfH.agree.tf tf.1 (by omegaR)]; exact hTv.2.2
  have hheldlt : held.1 < held.2.next := by omegaR
  have TH := tH.stable eA hheldlt
  -- locating a cell
  have locate : ∀ p : Pos, (⟨outer.1, ag.1, st.grid.h, st.grid.w⟩ : HState).contains p = true →
      ∃ (rr r : Ref) (row : List Obj) (o : Obj), rows.1[p.y.toNat]? = some rr ∧ st.grid.cells[p.y.toNat]? = some row ∧
        (ag.2.cellsOf rr)[p.x.toNat]? = some r ∧ row[p.x.toNat]? = some o ∧
        ag.2.cellRef ⟨outer.1, ag.1, st.grid.h, st.grid.w⟩ p = r ∧ st.grid.at p = o := by
    intro p hp
    have hp' := hp
    rw [HState.contains_iff] at hp'
    simp only at hp'
    have hi : p.y.toNat < rows.1.length := by rw [G.len, wl]; omega
    have hi2 : p.y.toNat < st.grid.cells.length := by rw [wl]; omega
    have hrl := G.rowLen p.y.toNat rows.1[p.y.toNat] st.grid.cells[p.y.toNat]
      (List.getElem?_eq_getElem hi) (List.getElem?_eq_getElem hi2)
    have hwl := wr _ (List.getElem_mem hi2)
    have hj2 : p.x.toNat < (st.grid.cells[p.y.toNat]).length := by rw [hwl]; omega
    have hj : p.x.toNat < (ag.2.cellsOf rows.1[p.y.toNat]).length := by rw [hrl]; exact hj2
    refine ⟨rows.1[p.y.toNat], (ag.2.cellsOf rows.1[p.y.toNat])[p.x.toNat], st.grid.cells[p.y.toNat],
      (st.grid.cells[p.y.toNat])[p.x.toNat], List.getElem?_eq_getElem hi, List.getElem?_eq_getElem hi2,
      List.getElem?_eq_getElem hj, List.getElem?_eq_getElem hj2, ?_, ?_⟩
    · simp [Heap.cellRef, hrowsOf, List.getD, hi, hj]
    · have hcg : st.grid.contains p = true := by
        rw [Grid.contains_iff]; omega
      rw [Grid.at_of_contains _ _ hcg]
      simp [Grid.cell, hi2, hj2]
  refine ⟨⟨rfl, rfl, ⟨wl, wr⟩, ⟨?_, ?_, ?_⟩, ?_, ?_, ?_, hin⟩, ?_⟩
  · show (ag.2.rowsOf outer.1).length = st.grid.h
    rw [hrowsOf, G.len, wl]
  · show (ag.2.rowsOf outer.1).Nodup
    rw [hrowsOf]
    exact G.sorted.imp (fun hab => Nat.ne_of_lt hab)
  · intro row hrow
    have hrow' : row ∈ rows.1 := by
      have : row ∈ ag.2.rowsOf outer.1 := hrow
      rwa [hrowsOf] at this
    obtain ⟨i, hi, rfl⟩ := List.getElem_of_mem hrow'
    have hi2 : i < st.grid.cells.length := by rw [← G.len]; exact hi
    rw [G.rowLen i rows.1[i] st.grid.cells[i] (List.getElem?_eq_getElem hi) (List.getElem?_eq_getElem hi2)]
    exact wr _ (List.getElem_mem hi2)
  · intro p hp
    obtain ⟨rr, r, row, o, a1, a2, a3, a4, a5, a6⟩ := locate p hp
    rw [a5, a6]
    exact G.den p.y.toNat rr row p.x.toNat r o a1 a2 a3 a4
  · show ag.2.tfOf (ag.2.agentOf ag.1).1 = _
    rw [hAv.2]; exact htf
  · show Denotes ag.2 (ag.2.agentOf ag.1).2 _
    rw [hAv.2]; exact TH.den
  · -- separation
    intro l1 l2 k1 k2 x v1 v2 h1 h2
    have heldTop : ag.2.top ⟨outer.1, ag.1, st.grid.h, st.grid.w⟩ none = held.1 := by
      simp [Heap.top, Heap.heldRef, hAv.2]
    cases l1 with
    | none =>
      cases l2 with
      | none =>
        simp only [Heap.chains, heldTop] at h1 h2
        exact ⟨rfl, TH.inj k1 k2 x h1 h2⟩
      | some p2 =>
        obtain ⟨rr, r, row, o, a1, a2, a3, a4, a5, a6⟩ := locate p2 v2
        simp only [Heap.chains, heldTop] at h1
        simp only [Heap.chains, Heap.top, a5] at h2
        have r1 := TH.range k1 x h1
        have r2 := G.range p2.y.toNat rr p2.x.toNat r k2 x a1 a3 h2
        omegaR
    | some p1 =>
      obtain ⟨rr1, r1, row1, o1, a1, a2, a3, a4, a5, a6⟩ := locate p1 v1
      simp only [Heap.chains, Heap.top, a5] at h1
      cases l2 with
      | none =>
        simp only [Heap.chains, heldTop] at h2
        have q1 := TH.range k2 x h2
        have q2 := G.range p1.y.toNat rr1 p1.x.toNat r1 k1 x a1 a3 h1
        omegaR
      | some p2 =>
        obtain ⟨rr2, r2, row2, o2, b1, b2, b3, b4, b5, b6⟩ := locate p2 v2
        simp only [Heap.chains, Heap.top, b5] at h2
        obtain ⟨ei, ej, ek⟩ := G.inj _ _ rr1 rr2 _ _ r1 r2 k1 k2 x a1 b1 a3 b3 h1 h2
        refine ⟨?_, ek⟩
        have c1 := v1
        have c2 := v2
        simp only [HState.validLoc] at c1 c2
        rw [HState.contains_iff] at c1 c2
        congr 1
        rw [Pos.ext_iff']
        omega

end GV
