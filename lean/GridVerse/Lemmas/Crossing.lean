/-
  The `crossing` layout: rivers, limits, the opened path.
-/
import GridVerse.Lemmas.Shuffle
import GridVerse.Lemmas.RoomsConn
set_option linter.unusedSimpArgs false
namespace GV

/-- the river coordinates of one direction: sorted, distinct, even, inside `[2, n-3]` -/
structure RiversOK (n : Int) (l : List Int) : Prop where
  sorted : Sorted l
  nodup : l.Nodup
  mem : ∀ x ∈ l, 2 ≤ x ∧ x ≤ n - 3 ∧ x % 2 = 0

theorem RiversOK.tail {n a : Int} {l : List Int} (r : RiversOK n (a :: l)) : RiversOK n l :=
  ⟨r.sorted.tail, (List.nodup_cons.mp r.nodup).2, fun x hx => r.mem x (List.mem_cons_of_mem _ hx)⟩

/-- rivers followed by the far wall are two apart -/
theorem rivers_gapped {n : Int} {l : List Int} (r : RiversOK n l) : Gapped (l ++ [n - 1]) := by
  induction l with
  | nil => trivial
  | cons a rest ih =>
    have hrest := ih r.tail
    cases rest with
    | nil =>
      have := r.mem a (List.mem_cons_self ..)
      exact ⟨by omega, trivial⟩
    | cons b rest' =>
      have ha := r.mem a (List.mem_cons_self ..)
      have hb := r.mem b (List.mem_cons_of_mem _ (List.mem_cons_self ..))
      have hab : a ≤ b := r.sorted.1
      have hne : a ≠ b := by
        intro h; have := (List.nodup_cons.mp r.nodup).1; exact this (h ▸ List.mem_cons_self ..)
      exact ⟨by omega, hrest⟩

/-- the limit vector `[0] ++ rivers ++ [n-1]` is a valid split vector -/
theorem limits_ok {n : Int} {l : List Int} (hn : 5 ≤ n) (r : RiversOK n l) : SplitsOK n (0 :: (l ++ [n - 1])) := by
  refine ⟨?_, rfl, ?_, by simp⟩
  · have hg := rivers_gapped r
    cases l with
    | nil => exact ⟨by omega, trivial⟩
    | cons a rest =>
      have := r.mem a (List.mem_cons_self ..)
      exact ⟨by omega, hg⟩
  · have : (0 :: (l ++ [n - 1])) = (0 :: l) ++ [n - 1] := rfl
    rw [this, List.getLast?_append]; simp

/-- consecutive entries by index form a consecutive pair -/
theorem getD_pair_mem (l : List Int) (i : Nat) (h : i + 1 < l.length) :
    (l.getD i 0, l.getD (i + 1) 0) ∈ pairwise l := by
  induction l generalizing i with
  | nil => simp at h
  | cons a rest ih =>
    cases rest with
    | nil => simp at h
    | cons b rest' =>
      cases i with
      | zero => simp [pairwise, List.getD]
      | succ j =>
        have := ih j (by simpa using h)
        rw [mem_pairwise_cons]
        right
        simpa [List.getD] using this

theorem Conn.mono {g g' : Grid} (h : ∀ q, Free g q → Free g' q) {p q : Pos} (c : Conn g p q) : Conn g' p q := by
  induction c with
  | refl => exact .refl _
  | step p q r adj fr _ ih => exact .step p q r adj (h q fr) ih

/-- the cell of the walled room with the exit in the far corner -/
def baseCell (sh : Shape) (q : Pos) : Obj :=
  if q = ⟨sh.h - 2, sh.w - 2⟩ then .exit .none else if onBorder sh.h.toNat sh.w.toNat q then .wall else .floor

/-- the grid once the rivers are drawn -/
structure CrossBase (sh : Shape) (H V : List Int) (g : Grid) : Prop where
  wf : g.WF
  gh : g.h = sh.h.toNat
  gw : g.w = sh.w.toNat
  cell : ∀ q, g.contains q = true → g.at q =
    if (q.y ∈ H ∧ 1 ≤ q.x ∧ q.x ≤ sh.w - 2) ∨ (q.x ∈ V ∧ 1 ≤ q.y ∧ q.y ≤ sh.h - 2) then .wall else baseCell sh q

/-- inside the room number `(ri, rj)` of the limit vectors -/
def InRoom (limH limV : List Int) (ri rj : Nat) (c : Pos) : Prop :=
  limH.getD ri 0 < c.y ∧ c.y < limH.getD (ri + 1) 0 ∧ limV.getD rj 0 < c.x ∧ c.x < limV.getD (rj + 1) 0

theorem cross_room_free {sh : Shape} {H V : List Int} {g : Grid} (b : CrossBase sh H V g)
    (hh : 5 ≤ sh.h) (hw : 5 ≤ sh.w) (rh : RiversOK sh.h H) (rv : RiversOK sh.w V) (ri rj : Nat)
    (hri : ri + 1 < (0 :: (H ++ [sh.h - 1])).length) (hrj : rj + 1 < (0 :: (V ++ [sh.w - 1])).length)
    (c : Pos) (hc : InRoom (0 :: (H ++ [sh.h - 1])) (0 :: (V ++ [sh.w - 1])) ri rj c) : Free g c := by
  have sH := limits_ok hh rh
  have sV := limits_ok hw rv
  have pH := getD_pair_mem _ ri hri
  have pV := getD_pair_mem _ rj hrj
  obtain ⟨c1, c2, c3, c4⟩ := hc
  have b1 := sH.bounds _ (pairwise_mem pH).1
  have b2 := sH.bounds _ (pairwise_mem pH).2
  have b3 := sV.bounds _ (pairwise_mem pV).1
  have b4 := sV.bounds _ (pairwise_mem pV).2
  simp only at b1 b2 b3 b4
  have hin : g.contains c = true := by rw [Grid.contains_iff, b.gh, b.gw]; omega
  have hyH : c.y ∉ H := by
    intro hm
    exact pairwise_no_between sH.gapped pH c.y (List.mem_cons_of_mem _ (List.mem_append_left _ hm)) ⟨c1, c2⟩
  have hxV : c.x ∉ V := by
    intro hm
    exact pairwise_no_between sV.gapped pV c.x (List.mem_cons_of_mem _ (List.mem_append_left _ hm)) ⟨c3, c4⟩
  refine ⟨hin, ?_⟩
  rw [b.cell c hin]
  have hno : ¬ ((c.y ∈ H ∧ 1 ≤ c.x ∧ c.x ≤ sh.w - 2) ∨ (c.x ∈ V ∧ 1 ≤ c.y ∧ c.y ≤ sh.h - 2)) := by
    rintro (⟨h, _⟩ | ⟨h, _⟩)
    · exact hyH h
    · exact hxV h
  rw [if_neg hno]
  unfold baseCell
  split
  · rfl
  · have : ¬ onBorder sh.h.toNat sh.w.toNat c := by unfold onBorder; omega
    rw [if_neg this]; rfl

/-- what the path-opening loop maintains -/
structure CrossInv (sh : Shape) (H V : List Int) (g2 g : Grid) (ri rj : Nat) : Prop where
  wf : g.WF
  gh : g.h = g2.h
  gw : g.w = g2.w
  mono : ∀ q, Free g2 q → Free g q
  conn : ∀ c, InRoom (0 :: (H ++ [sh.h - 1])) (0 :: (V ++ [sh.w - 1])) ri rj c → Conn g ⟨1, 1⟩ c
  kinds : ∀ q, g.at q = g2.at q ∨ (g.at q = .floor ∧ g2.at q = .wall ∧ Interior sh.h.toNat sh.w.toNat q)

theorem free_setP_floor {g : Grid} (wf : g.WF) (p : Pos) (hp : g.contains p = true) (q : Pos) (h : Free g q) :
    Free (g.setP p .floor) q := by
  refine ⟨by simpa using h.1, ?_⟩
  rw [Grid.at_setP g wf p _ hp]
  split
  · rfl
  · exact h.2

theorem free_opening {g : Grid} (wf : g.WF) (p : Pos) (hp : g.contains p = true) : Free (g.setP p .floor) p := by
  refine ⟨by simpa using hp, ?_⟩
  rw [Grid.at_setP g wf p _ hp, if_pos rfl]; rfl

/-- the river entry number `k` (`k < |l|`) of a limit vector is a river -/
theorem limit_getD_river (l : List Int) (z : Int) (k : Nat) (hk : k < l.length) :
    (0 :: (l ++ [z])).getD (k + 1) 0 ∈ l := by
  simp only [List.getD, List.getElem?_cons_succ]
  rw [List.getElem?_append_left hk]
  simp [List.getElem?_eq_getElem hk]

/-- opening the vertical river to the right of room `(ri, rj)` at row `i` -/
theorem cross_step_right {sh : Shape} {H V : List Int} {g2 g : Grid} (b : CrossBase sh H V g2)
    (hh : 5 ≤ sh.h) (hw : 5 ≤ sh.w) (rh : RiversOK sh.h H) (rv : RiversOK sh.w V) (ri rj : Nat)
    (hri : ri < H.length + 1) (hrj : rj < V.length) (inv : CrossInv sh H V g2 g ri rj) (i : Int)
    (hi1 : (0 :: (H ++ [sh.h - 1])).getD ri 0 < i) (hi2 : i < (0 :: (H ++ [sh.h - 1])).getD (ri + 1) 0) :
    g.contains ⟨i, (0 :: (V ++ [sh.w - 1])).getD (rj + 1) 0⟩ = true ∧
    CrossInv sh H V g2 (g.setP ⟨i, (0 :: (V ++ [sh.w - 1])).getD (rj + 1) 0⟩ .floor) ri (rj + 1) := by
  have sH := limits_ok hh rh
  have sV := limits_ok hw rv
  have lenH : (0 :: (H ++ [sh.h - 1])).length = H.length + 2 := by simp
  have lenV : (0 :: (V ++ [sh.w - 1])).length = V.length + 2 := by simp
  have pH := getD_pair_mem (0 :: (H ++ [sh.h - 1])) ri (by omega)
  have pV := getD_pair_mem (0 :: (V ++ [sh.w - 1])) rj (by omega)
  have pV' := getD_pair_mem (0 :: (V ++ [sh.w - 1])) (rj + 1) (by omega)
  generalize hv : (0 :: (V ++ [sh.w - 1])).getD (rj + 1) 0 = v at pV pV' ⊢
  have hvV : v ∈ V := by rw [← hv]; exact limit_getD_river V _ rj hrj
  have bH1 := sH.bounds _ (pairwise_mem pH).1
  have bH2 := sH.bounds _ (pairwise_mem pH).2
  have gV := pairwise_gap sV.gapped pV
  have gV' := pairwise_gap sV.gapped pV'
  have bV1 := sV.bounds _ (pairwise_mem pV).1
  have bV3 := sV.bounds _ (pairwise_mem pV').2
  simp only at bH1 bH2 gV gV' bV1 bV3
  have hvb := rv.mem v hvV
  have hin2 : g2.contains ⟨i, v⟩ = true := by rw [Grid.contains_iff, b.gh, b.gw]; simp only; omega
  have hin : g.contains ⟨i, v⟩ = true := by
    rw [Grid.contains_iff, inv.gh, inv.gw, b.gh, b.gw]; simp only; omega
  refine ⟨hin, Grid.setP_WF g inv.wf _ _, by simpa using inv.gh, by simpa using inv.gw, ?_, ?_, ?_⟩
  · intro q hq; exact free_setP_floor inv.wf _ hin q (inv.mono q hq)
  · -- the new room is reached through the opening
    intro c hc
    have monoNew : ∀ q, Free g q → Free (g.setP ⟨i, v⟩ .floor) q := fun q => free_setP_floor inv.wf _ hin q
    have a : Conn (g.setP ⟨i, v⟩ .floor) ⟨1, 1⟩ ⟨i, v - 1⟩ :=
      (inv.conn ⟨i, v - 1⟩ ⟨hi1, hi2, by simp only; omega, by simp only; omega⟩).mono monoNew
    have o : Conn (g.setP ⟨i, v⟩ .floor) ⟨i, v - 1⟩ ⟨i, v⟩ :=
      Conn.single ⟨.R, by simp [Pos.add, Pos.ofOrient]⟩ (free_opening inv.wf _ hin)
    have roomFree : ∀ q, InRoom (0 :: (H ++ [sh.h - 1])) (0 :: (V ++ [sh.w - 1])) ri (rj + 1) q →
        Free (g.setP ⟨i, v⟩ .floor) q := by
      intro q hq
      exact monoNew q (inv.mono q (cross_room_free b hh hw rh rv ri (rj + 1) (by omega) (by omega) q hq))
    have hb : InRoom (0 :: (H ++ [sh.h - 1])) (0 :: (V ++ [sh.w - 1])) ri (rj + 1) ⟨i, v + 1⟩ := by
      refine ⟨hi1, hi2, ?_, ?_⟩
      · rw [hv]; simp only; omega
      · simp only; omega
    have b' : Conn (g.setP ⟨i, v⟩ .floor) ⟨i, v⟩ ⟨i, v + 1⟩ :=
      Conn.single ⟨.R, by simp [Pos.add, Pos.ofOrient]⟩ (roomFree _ hb)
    have inroom : Conn (g.setP ⟨i, v⟩ .floor) ⟨i, v + 1⟩ c := by
      obtain ⟨c1, c2, c3, c4⟩ := hc
      obtain ⟨d1, d2, d3, d4⟩ := hb
      apply conn_rect _ ((0 :: (H ++ [sh.h - 1])).getD ri 0 + 1) ((0 :: (H ++ [sh.h - 1])).getD (ri + 1) 0 - 1)
        ((0 :: (V ++ [sh.w - 1])).getD (rj + 1) 0 + 1) ((0 :: (V ++ [sh.w - 1])).getD (rj + 1 + 1) 0 - 1)
      · intro q q1 q2 q3 q4
        exact roomFree q ⟨by omega, by omega, by omega, by omega⟩
      · simp only at d1 d2 d3 d4 ⊢; omega
      · omega
    exact a.trans (o.trans (b'.trans inroom))
  · intro q
    rw [Grid.at_setP g inv.wf _ _ hin]
    by_cases hq : q = ⟨i, v⟩
    · rw [if_pos hq]
      right
      refine ⟨rfl, ?_, ?_⟩
      · rw [hq, b.cell _ hin2]
        have : ((⟨i, v⟩ : Pos).y ∈ H ∧ 1 ≤ (⟨i, v⟩ : Pos).x ∧ (⟨i, v⟩ : Pos).x ≤ sh.w - 2) ∨
            ((⟨i, v⟩ : Pos).x ∈ V ∧ 1 ≤ (⟨i, v⟩ : Pos).y ∧ (⟨i, v⟩ : Pos).y ≤ sh.h - 2) := by
          right; exact ⟨hvV, by simp only; omega, by simp only; omega⟩
        rw [if_pos this]
      · rw [hq]; unfold Interior; simp only; omega
    · rw [if_neg hq]; exact inv.kinds q

/-- opening the horizontal river below room `(ri, rj)` at column `j` -/
theorem cross_step_down {sh : Shape} {H V : List Int} {g2 g : Grid} (b : CrossBase sh H V g2)
    (hh : 5 ≤ sh.h) (hw : 5 ≤ sh.w) (rh : RiversOK sh.h H) (rv : RiversOK sh.w V) (ri rj : Nat)
    (hri : ri < H.length) (hrj : rj < V.length + 1) (inv : CrossInv sh H V g2 g ri rj) (j : Int)
    (hj1 : (0 :: (V ++ [sh.w - 1])).getD rj 0 < j) (hj2 : j < (0 :: (V ++ [sh.w - 1])).getD (rj + 1) 0) :
    g.contains ⟨(0 :: (H ++ [sh.h - 1])).getD (ri + 1) 0, j⟩ = true ∧
    CrossInv sh H V g2 (g.setP ⟨(0 :: (H ++ [sh.h - 1])).getD (ri + 1) 0, j⟩ .floor) (ri + 1) rj := by
  have sH := limits_ok hh rh
  have sV := limits_ok hw rv
  have lenH : (0 :: (H ++ [sh.h - 1])).length = H.length + 2 := by simp
  have lenV : (0 :: (V ++ [sh.w - 1])).length = V.length + 2 := by simp
  have pV := getD_pair_mem (0 :: (V ++ [sh.w - 1])) rj (by omega)
  have pH := getD_pair_mem (0 :: (H ++ [sh.h - 1])) ri (by omega)
  have pH' := getD_pair_mem (0 :: (H ++ [sh.h - 1])) (ri + 1) (by omega)
  generalize hv : (0 :: (H ++ [sh.h - 1])).getD (ri + 1) 0 = v at pH pH' ⊢
  have hvH : v ∈ H := by rw [← hv]; exact limit_getD_river H _ ri hri
  have bV1 := sV.bounds _ (pairwise_mem pV).1
  have bV2 := sV.bounds _ (pairwise_mem pV).2
  have gH := pairwise_gap sH.gapped pH
  have gH' := pairwise_gap sH.gapped pH'
  have bH1 := sH.bounds _ (pairwise_mem pH).1
  have bH3 := sH.bounds _ (pairwise_mem pH').2
  simp only at bV1 bV2 gH gH' bH1 bH3
  have hvb := rh.mem v hvH
  have hin2 : g2.contains ⟨v, j⟩ = true := by rw [Grid.contains_iff, b.gh, b.gw]; simp only; omega
  have hin : g.contains ⟨v, j⟩ = true := by
    rw [Grid.contains_iff, inv.gh, inv.gw, b.gh, b.gw]; simp only; omega
  refine ⟨hin, Grid.setP_WF g inv.wf _ _, by simpa using inv.gh, by simpa using inv.gw, ?_, ?_, ?_⟩
  · intro q hq; exact free_setP_floor inv.wf _ hin q (inv.mono q hq)
  · intro c hc
    have monoNew : ∀ q, Free g q → Free (g.setP ⟨v, j⟩ .floor) q := fun q => free_setP_floor inv.wf _ hin q
    have a : Conn (g.setP ⟨v, j⟩ .floor) ⟨1, 1⟩ ⟨v - 1, j⟩ :=
      (inv.conn ⟨v - 1, j⟩ ⟨by simp only; omega, by simp only; omega, hj1, hj2⟩).mono monoNew
    have o : Conn (g.setP ⟨v, j⟩ .floor) ⟨v - 1, j⟩ ⟨v, j⟩ :=
      Conn.single ⟨.B, by simp [Pos.add, Pos.ofOrient]⟩ (free_opening inv.wf _ hin)
    have roomFree : ∀ q, InRoom (0 :: (H ++ [sh.h - 1])) (0 :: (V ++ [sh.w - 1])) (ri + 1) rj q →
        Free (g.setP ⟨v, j⟩ .floor) q := by
      intro q hq
      exact monoNew q (inv.mono q (cross_room_free b hh hw rh rv (ri + 1) rj (by omega) (by omega) q hq))
    have hb : InRoom (0 :: (H ++ [sh.h - 1])) (0 :: (V ++ [sh.w - 1])) (ri + 1) rj ⟨v + 1, j⟩ := by
      refine ⟨?_, ?_, hj1, hj2⟩
      · rw [hv]; simp only; omega
      · simp only; omega
    have b' : Conn (g.setP ⟨v, j⟩ .floor) ⟨v, j⟩ ⟨v + 1, j⟩ :=
      Conn.single ⟨.B, by simp [Pos.add, Pos.ofOrient]⟩ (roomFree _ hb)
    have inroom : Conn (g.setP ⟨v, j⟩ .floor) ⟨v + 1, j⟩ c := by
      obtain ⟨c1, c2, c3, c4⟩ := hc
      obtain ⟨d1, d2, d3, d4⟩ := hb
      apply conn_rect _ ((0 :: (H ++ [sh.h - 1])).getD (ri + 1) 0 + 1) ((0 :: (H ++ [sh.h - 1])).getD (ri + 1 + 1) 0 - 1)
        ((0 :: (V ++ [sh.w - 1])).getD rj 0 + 1) ((0 :: (V ++ [sh.w - 1])).getD (rj + 1) 0 - 1)
      · intro q q1 q2 q3 q4
        exact roomFree q ⟨by omega, by omega, by omega, by omega⟩
      · simp only at d1 d2 d3 d4 ⊢; omega
      · omega
    exact a.trans (o.trans (b'.trans inroom))
  · intro q
    rw [Grid.at_setP g inv.wf _ _ hin]
    by_cases hq : q = ⟨v, j⟩
    · rw [if_pos hq]
      right
      refine ⟨rfl, ?_, ?_⟩
      · rw [hq, b.cell _ hin2]
        have : ((⟨v, j⟩ : Pos).y ∈ H ∧ 1 ≤ (⟨v, j⟩ : Pos).x ∧ (⟨v, j⟩ : Pos).x ≤ sh.w - 2) ∨
            ((⟨v, j⟩ : Pos).x ∈ V ∧ 1 ≤ (⟨v, j⟩ : Pos).y ∧ (⟨v, j⟩ : Pos).y ≤ sh.h - 2) := by
          left; exact ⟨hvH, by simp only; omega, by simp only; omega⟩
        rw [if_pos this]
      · rw [hq]; unfold Interior; simp only; omega
    · rw [if_neg hq]; exact inv.kinds q

/-- the whole loop: for any path whose numbers of right/down steps fit the remaining rivers -/
theorem crossingPath_spec {sh : Shape} {H V : List Int} {g2 : Grid} (b : CrossBase sh H V g2)
    (hh : 5 ≤ sh.h) (hw : 5 ≤ sh.w) (rh : RiversOK sh.h H) (rv : RiversOK sh.w V) (path : List Bool)
    (ri rj : Nat) (g : Grid) (d : DrawSt)
    (hT : path.count true + rj ≤ V.length) (hF : path.count false + ri ≤ H.length)
    (inv : CrossInv sh H V g2 g ri rj) :
    ∃ g' d', crossingPath (0 :: (H ++ [sh.h - 1])) (0 :: (V ++ [sh.w - 1])) path ri rj (g, d) = .ok (g', d') ∧
      CrossInv sh H V g2 g' (ri + path.count false) (rj + path.count true) := by
  induction path generalizing ri rj g d with
  | nil => exact ⟨g, d, rfl, by simpa using inv⟩
  | cons st rest ih =>
    have sH := limits_ok hh rh
    have sV := limits_ok hw rv
    cases st with
    | true =>
      simp only [List.count_cons_self, List.count_cons_of_ne (by decide : true ≠ false)] at hT hF ⊢
      have pH := getD_pair_mem (0 :: (H ++ [sh.h - 1])) ri (by simp; omega)
      have gap := pairwise_gap sH.gapped pH
      simp only at gap
      obtain ⟨i, d1, hdraw, hi1, hi2⟩ := drawIntegers_some ((0 :: (H ++ [sh.h - 1])).getD ri 0 + 1)
        ((0 :: (H ++ [sh.h - 1])).getD (ri + 1) 0) (by omega) d
      obtain ⟨hin, inv'⟩ := cross_step_right b hh hw rh rv ri rj (by omega) (by omega) inv i (by omega) hi2
      obtain ⟨g', d', hrun, inv''⟩ := ih ri (rj + 1) _ d1 (by omega) hF inv'
      refine ⟨g', d', ?_, ?_⟩
      · simp only [crossingPath, if_true, hdraw, Grid.setE_ok _ _ _ hin]
        exact hrun
      · have e : rj + 1 + List.count true rest = rj + (List.count true rest + 1) := by omega
        rw [e] at inv''
        exact inv''
    | false =>
      simp only [List.count_cons_self, List.count_cons_of_ne (by decide : false ≠ true)] at hT hF ⊢
      have pV := getD_pair_mem (0 :: (V ++ [sh.w - 1])) rj (by simp; omega)
      have gap := pairwise_gap sV.gapped pV
      simp only at gap
      obtain ⟨j, d1, hdraw, hj1, hj2⟩ := drawIntegers_some ((0 :: (V ++ [sh.w - 1])).getD rj 0 + 1)
        ((0 :: (V ++ [sh.w - 1])).getD (rj + 1) 0) (by omega) d
      obtain ⟨hin, inv'⟩ := cross_step_down b hh hw rh rv ri rj (by omega) (by omega) inv j (by omega) hj2
      obtain ⟨g', d', hrun, inv''⟩ := ih (ri + 1) rj _ d1 hT (by omega) inv'
      refine ⟨g', d', ?_, ?_⟩
      · simp only [crossingPath, Bool.false_eq_true, if_false, hdraw, Grid.setE_ok _ _ _ hin]
        exact hrun
      · have e : ri + 1 + List.count false rest = ri + (List.count false rest + 1) := by omega
        rw [e] at inv''
        exact inv''

end GV
