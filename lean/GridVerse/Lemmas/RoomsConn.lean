/-
  Every floor cell of the room grid is connected to the cell (1, 1): through the passages, room by
  room, towards the top-left room.
-/
import GridVerse.Lemmas.Rooms
import GridVerse.Lemmas.Conn
set_option linter.unusedSimpArgs false
namespace GV

/-- the final grid: the room grid with the exit put on one of its floor cells -/
structure RoomsFinal (h w : Nat) (ys xs : List Int) (g0 g : Grid) (ep : Pos) : Prop where
  base : RoomsGrid h w ys xs g0
  epIn : g0.contains ep = true
  epFloor : g0.at ep = .floor
  eq : g = g0.setP ep (.exit .none)

theorem RoomsFinal.contains {h w : Nat} {ys xs : List Int} {g0 g : Grid} {ep : Pos}
    (r : RoomsFinal h w ys xs g0 g ep) (q : Pos) : g.contains q = g0.contains q := by
  rw [r.eq]; simp

theorem RoomsFinal.free {h w : Nat} {ys xs : List Int} {g0 g : Grid} {ep : Pos}
    (r : RoomsFinal h w ys xs g0 g ep) (q : Pos) (hc : g0.contains q = true) (hf : g0.at q = .floor) :
    Free g q := by
  refine ⟨by rw [r.contains]; exact hc, ?_⟩
  rw [r.eq, Grid.at_setP g0 r.base.wf ep _ r.epIn]
  split
  · rfl
  · rw [hf]; rfl

/-- a room: the open rectangle between two consecutive split rows and two consecutive split columns -/
theorem RoomsFinal.room_free {h w : Nat} {ys xs : List Int} {g0 g : Grid} {ep : Pos}
    (r : RoomsFinal h w ys xs g0 g ep) (sy : SplitsOK h ys) (sx : SplitsOK w xs)
    {py px : Int × Int} (hpy : py ∈ pairwise ys) (hpx : px ∈ pairwise xs) (q : Pos)
    (h1 : py.1 < q.y) (h2 : q.y < py.2) (h3 : px.1 < q.x) (h4 : q.x < px.2) : Free g q := by
  have by1 := sy.bounds py.1 (pairwise_mem hpy).1
  have by2 := sy.bounds py.2 (pairwise_mem hpy).2
  have bx1 := sx.bounds px.1 (pairwise_mem hpx).1
  have bx2 := sx.bounds px.2 (pairwise_mem hpx).2
  have hc : g0.contains q = true := by
    rw [Grid.contains_iff, r.base.gh, r.base.gw]; omega
  apply r.free q hc
  apply r.base.room q hc
  · intro hm; exact pairwise_no_between sy.gapped hpy q.y hm ⟨h1, h2⟩
  · intro hm; exact pairwise_no_between sx.gapped hpx q.x hm ⟨h3, h4⟩

theorem RoomsFinal.room_conn {h w : Nat} {ys xs : List Int} {g0 g : Grid} {ep : Pos}
    (r : RoomsFinal h w ys xs g0 g ep) (sy : SplitsOK h ys) (sx : SplitsOK w xs)
    {py px : Int × Int} (hpy : py ∈ pairwise ys) (hpx : px ∈ pairwise xs) (p q : Pos)
    (hp : py.1 < p.y ∧ p.y < py.2 ∧ px.1 < p.x ∧ p.x < px.2)
    (hq : py.1 < q.y ∧ q.y < py.2 ∧ px.1 < q.x ∧ q.x < px.2) : Conn g p q := by
  apply conn_rect g (py.1 + 1) (py.2 - 1) (px.1 + 1) (px.2 - 1)
  · intro c a b cc e
    exact r.room_free sy sx hpy hpx c (by omega) (by omega) (by omega) (by omega)
  · omega
  · omega

/-- every room cell is connected to (1, 1) -/
theorem RoomsFinal.to_origin {h w : Nat} {ys xs : List Int} {g0 g : Grid} {ep : Pos}
    (r : RoomsFinal h w ys xs g0 g ep) (sy : SplitsOK h ys) (sx : SplitsOK w xs) (n : Nat) :
    ∀ (p : Pos) (py px : Int × Int), py ∈ pairwise ys → px ∈ pairwise xs →
      py.1 < p.y → p.y < py.2 → px.1 < p.x → p.x < px.2 → (py.1 + px.1).toNat = n → Conn g p ⟨1, 1⟩ := by
  induction n using Nat.strongRecOn with
  | _ n ih =>
    intro p py px hpy hpx h1 h2 h3 h4 hn
    have by1 := sy.bounds py.1 (pairwise_mem hpy).1
    have bx1 := sx.bounds px.1 (pairwise_mem hpx).1
    by_cases hx0 : px.1 = 0
    · by_cases hy0 : py.1 = 0
      · -- the top-left room
        apply r.room_conn sy sx hpy hpx p ⟨1, 1⟩ ⟨h1, h2, h3, h4⟩
        have g1 := pairwise_gap sy.gapped hpy
        have g2 := pairwise_gap sx.gapped hpx
        simp only
        omega
      · -- up through the passage in the wall row `py.1`
        obtain ⟨hin, p0, hp0⟩ := left_end_inner sy.gapped 0 sy.first hpy hy0
        obtain ⟨v, hv1, hv2, hfl⟩ := r.base.hpass py.1 hin px hpx
        have gp0 := pairwise_gap sy.gapped hp0
        have gpy := pairwise_gap sy.gapped hpy
        have bx2 := sx.bounds px.2 (pairwise_mem hpx).2
        have by2 := sy.bounds py.2 (pairwise_mem hpy).2
        have bp0 := sy.bounds p0 (pairwise_mem hp0).1
        -- p → the cell below the opening → the opening → the cell above it → (induction)
        have c1 : Conn g p ⟨py.1 + 1, v⟩ :=
          r.room_conn sy sx hpy hpx p _ ⟨h1, h2, h3, h4⟩ ⟨by simp only; omega, by simp only; omega, hv1, hv2⟩
        have hopen : Free g ⟨py.1, v⟩ := by
          apply r.free _ _ hfl
          rw [Grid.contains_iff, r.base.gh, r.base.gw]; simp only; omega
        have c2 : Conn g ⟨py.1 + 1, v⟩ ⟨py.1, v⟩ :=
          Conn.single ⟨.F, by simp [Pos.add, Pos.ofOrient]; omega⟩ hopen
        have habove : Free g ⟨py.1 - 1, v⟩ :=
          r.room_free sy sx hp0 hpx _ (by simp only; omega) (by simp only; omega) hv1 hv2
        have c3 : Conn g ⟨py.1, v⟩ ⟨py.1 - 1, v⟩ :=
          Conn.single ⟨.F, by simp [Pos.add, Pos.ofOrient]; omega⟩ habove
        have c4 := ih (p0 + px.1).toNat (by simp only at gp0; omega) ⟨py.1 - 1, v⟩ (p0, py.1) px hp0 hpx
          (by simp only; omega) (by simp only; omega) hv1 hv2 rfl
        exact c1.trans (c2.trans (c3.trans c4))
    · -- left through the passage in the wall column `px.1`
      obtain ⟨hin, p0, hp0⟩ := left_end_inner sx.gapped 0 sx.first hpx hx0
      obtain ⟨u, hu1, hu2, hfl⟩ := r.base.vpass py hpy px.1 hin
      have gp0 := pairwise_gap sx.gapped hp0
      have gpx := pairwise_gap sx.gapped hpx
      have bx2 := sx.bounds px.2 (pairwise_mem hpx).2
      have by2 := sy.bounds py.2 (pairwise_mem hpy).2
      have bp0 := sx.bounds p0 (pairwise_mem hp0).1
      have c1 : Conn g p ⟨u, px.1 + 1⟩ :=
        r.room_conn sy sx hpy hpx p _ ⟨h1, h2, h3, h4⟩ ⟨hu1, hu2, by simp only; omega, by simp only; omega⟩
      have hopen : Free g ⟨u, px.1⟩ := by
        apply r.free _ _ hfl
        rw [Grid.contains_iff, r.base.gh, r.base.gw]; simp only; omega
      have c2 : Conn g ⟨u, px.1 + 1⟩ ⟨u, px.1⟩ :=
        Conn.single ⟨.L, by simp [Pos.add, Pos.ofOrient]; omega⟩ hopen
      have hleft : Free g ⟨u, px.1 - 1⟩ :=
        r.room_free sy sx hpy hp0 _ hu1 hu2 (by simp only; omega) (by simp only; omega)
      have c3 : Conn g ⟨u, px.1⟩ ⟨u, px.1 - 1⟩ :=
        Conn.single ⟨.L, by simp [Pos.add, Pos.ofOrient]; omega⟩ hleft
      have c4 := ih (py.1 + p0).toNat (by simp only at gp0; omega) ⟨u, px.1 - 1⟩ py (p0, px.1) hpy hp0
        hu1 hu2 (by simp only; omega) (by simp only; omega) rfl
      exact c1.trans (c2.trans (c3.trans c4))

/-- every floor cell of the room grid (room cell or opening) is connected to (1, 1) -/
theorem RoomsFinal.floor_to_origin {h w : Nat} {ys xs : List Int} {g0 g : Grid} {ep : Pos}
    (r : RoomsFinal h w ys xs g0 g ep) (sy : SplitsOK h ys) (sx : SplitsOK w xs) (q : Pos)
    (hc : g0.contains q = true) (hf : g0.at q = .floor) : Conn g q ⟨1, 1⟩ := by
  have hq : 0 ≤ q.y ∧ q.y < h ∧ 0 ≤ q.x ∧ q.x < w := by
    rw [Grid.contains_iff, r.base.gh, r.base.gw] at hc; exact hc
  have mem0 : ∀ {n : Int} {l : List Int}, SplitsOK n l → (0 : Int) ∈ l ∧ n - 1 ∈ l := by
    intro n l s
    exact ⟨List.mem_of_mem_head? s.first, List.mem_of_mem_getLast? s.last⟩
  rcases r.base.floors q hc hf with ⟨hy, hx⟩ | ⟨hy, px, hpx, hx1, hx2⟩ | ⟨hx, py, hpy, hy1, hy2⟩
  · -- a room cell
    have hy0 : q.y ≠ 0 := fun e => hy (e ▸ (mem0 sy).1)
    have hy1 : q.y ≠ (h : Int) - 1 := fun e => hy (e ▸ (mem0 sy).2)
    have hx0 : q.x ≠ 0 := fun e => hx (e ▸ (mem0 sx).1)
    have hx1 : q.x ≠ (w : Int) - 1 := fun e => hx (e ▸ (mem0 sx).2)
    obtain ⟨py, hpy, a1, a2⟩ := locate sy.gapped 0 _ sy.first sy.last q.y (by omega) (by omega) hy
    obtain ⟨px, hpx, b1, b2⟩ := locate sx.gapped 0 _ sx.first sx.last q.x (by omega) (by omega) hx
    exact r.to_origin sy sx _ q py px hpy hpx a1 a2 b1 b2 rfl
  · -- an opening in a wall row: step down into the room below
    obtain ⟨⟨b, hb⟩, _⟩ := inner_pairs hy
    have gb := pairwise_gap sy.gapped hb
    simp only at gb
    have fr : Free g ⟨q.y + 1, q.x⟩ := r.room_free sy sx hb hpx _ (by simp only; omega) (by simp only; omega) hx1 hx2
    have c1 : Conn g q ⟨q.y + 1, q.x⟩ := Conn.single ⟨.B, by simp [Pos.add, Pos.ofOrient]⟩ fr
    exact c1.trans (r.to_origin sy sx _ ⟨q.y + 1, q.x⟩ (q.y, b) px hb hpx (by simp only; omega) (by simp only; omega) hx1 hx2 rfl)
  · -- an opening in a wall column: step right into the room beside it
    obtain ⟨⟨b, hb⟩, _⟩ := inner_pairs hx
    have gb := pairwise_gap sx.gapped hb
    simp only at gb
    have fr : Free g ⟨q.y, q.x + 1⟩ := r.room_free sy sx hpy hb _ hy1 hy2 (by simp only; omega) (by simp only; omega)
    have c1 : Conn g q ⟨q.y, q.x + 1⟩ := Conn.single ⟨.R, by simp [Pos.add, Pos.ofOrient]⟩ fr
    exact c1.trans (r.to_origin sy sx _ ⟨q.y, q.x + 1⟩ py (q.x, b) hpy hb hy1 hy2 (by simp only; omega) (by simp only; omega) rfl)

/-- any two floor cells of the room grid are connected -/
theorem RoomsFinal.floor_conn {h w : Nat} {ys xs : List Int} {g0 g : Grid} {ep : Pos}
    (r : RoomsFinal h w ys xs g0 g ep) (sy : SplitsOK h ys) (sx : SplitsOK w xs) (p q : Pos)
    (hp : g0.contains p = true ∧ g0.at p = .floor) (hq : g0.contains q = true ∧ g0.at q = .floor) :
    Conn g p q :=
  (r.floor_to_origin sy sx p hp.1 hp.2).trans
    ((r.floor_to_origin sy sx q hq.1 hq.2).symm (r.free q hq.1 hq.2))

end GV
