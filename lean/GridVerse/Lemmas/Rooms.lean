/-
  The room grid of `rooms` / `memory_rooms`: split vectors, walls, passages.
-/
import GridVerse.Lemmas.Draw
import GridVerse.Lemmas.Positions
import GridVerse.Model.Reset
set_option linter.unusedSimpArgs false
namespace GV

theorem mem_cartesian' (ys xs : List Int) (p : Pos) : p ∈ cartesian ys xs ↔ p.y ∈ ys ∧ p.x ∈ xs := by
  simp only [cartesian, List.mem_flatMap, List.mem_map]
  constructor
  · rintro ⟨y, hy, x, hx, rfl⟩; exact ⟨hy, hx⟩
  · rintro ⟨hy, hx⟩; exact ⟨p.y, hy, p.x, hx, rfl⟩

/-! ### split vectors -/

/-- consecutive entries at least two apart (a room of at least one cell between two walls) -/
def Gapped : List Int → Prop
  | a :: b :: rest => a + 2 ≤ b ∧ Gapped (b :: rest)
  | _ => True

theorem Gapped.tail {a : Int} {l : List Int} (h : Gapped (a :: l)) : Gapped l := by
  cases l with
  | nil => trivial
  | cons b rest => exact h.2

theorem Gapped.head_lt {a : Int} {l : List Int} (h : Gapped (a :: l)) : ∀ x ∈ l, a + 2 ≤ x := by
  induction l generalizing a with
  | nil => intro x hx; cases hx
  | cons b rest ih =>
    intro x hx
    rcases List.mem_cons.mp hx with rfl | hx
    · exact h.1
    · have := ih h.2 x hx; have := h.1; omega

theorem mem_pairwise_cons (a b : Int) (rest : List Int) (pr : Int × Int) :
    pr ∈ pairwise (a :: b :: rest) ↔ pr = (a, b) ∨ pr ∈ pairwise (b :: rest) := by
  simp [pairwise]

theorem pairwise_mem {l : List Int} {pr : Int × Int} (h : pr ∈ pairwise l) : pr.1 ∈ l ∧ pr.2 ∈ l := by
  induction l with
  | nil => simp [pairwise] at h
  | cons a l ih =>
    cases l with
    | nil => simp [pairwise] at h
    | cons b rest =>
      rcases (mem_pairwise_cons a b rest pr).mp h with rfl | h'
      · simp
      · obtain ⟨h1, h2⟩ := ih h'
        exact ⟨List.mem_cons_of_mem _ h1, List.mem_cons_of_mem _ h2⟩

theorem pairwise_gap {l : List Int} (hg : Gapped l) {pr : Int × Int} (h : pr ∈ pairwise l) : pr.1 + 2 ≤ pr.2 := by
  induction l with
  | nil => simp [pairwise] at h
  | cons a l ih =>
    cases l with
    | nil => simp [pairwise] at h
    | cons b rest =>
      rcases (mem_pairwise_cons a b rest pr).mp h with rfl | h'
      · exact hg.1
      · exact ih hg.2 h'

/-- no split lies strictly between two consecutive ones -/
theorem pairwise_no_between {l : List Int} (hg : Gapped l) {pr : Int × Int} (h : pr ∈ pairwise l) :
    ∀ x ∈ l, ¬ (pr.1 < x ∧ x < pr.2) := by
  induction l with
  | nil => simp [pairwise] at h
  | cons a l ih =>
    cases l with
    | nil => simp [pairwise] at h
    | cons b rest =>
      intro x hx
      rcases (mem_pairwise_cons a b rest pr).mp h with rfl | h'
      · rcases List.mem_cons.mp hx with rfl | hx
        · simp only; omega
        · rcases List.mem_cons.mp hx with rfl | hx
          · simp only; omega
          · have := hg.2.head_lt x hx; simp only; omega
      · rcases List.mem_cons.mp hx with rfl | hx
        · -- `x = a` is below every later pair
          have h1 := (pairwise_mem h').1
          have := hg.head_lt pr.1 h1
          omega
        · exact ih hg.2 h' x hx

/-- a value strictly inside the range that is not a split lies in exactly one gap -/
theorem locate {l : List Int} (hg : Gapped l) (a z : Int) (ha : l.head? = some a) (hz : l.getLast? = some z)
    (x : Int) (h1 : a < x) (h2 : x < z) (hx : x ∉ l) : ∃ pr ∈ pairwise l, pr.1 < x ∧ x < pr.2 := by
  induction l generalizing a with
  | nil => simp at ha
  | cons c l ih =>
    simp only [List.head?_cons, Option.some.injEq] at ha
    subst ha
    cases l with
    | nil => simp at hz; omega
    | cons b rest =>
      by_cases hb : x < b
      · exact ⟨(c, b), by simp [pairwise], h1, hb⟩
      · have hxb : x ≠ b := fun h => hx (by simp [h])
        have hz' : (b :: rest).getLast? = some z := by simpa [List.getLast?_cons_cons] using hz
        obtain ⟨pr, hpr, hlt⟩ := ih hg.2 b rfl hz' (by omega) (fun h => hx (List.mem_cons_of_mem _ h))
        exact ⟨pr, (mem_pairwise_cons c b rest pr).mpr (Or.inr hpr), hlt⟩

/-- the entries strictly between first and last (`l[1:-1]`) -/
def inner (l : List Int) : List Int := (l.drop 1).dropLast

/-- the left end of a pair other than the first is an inner entry, and is the right end of a pair -/
theorem left_end_inner {l : List Int} (hg : Gapped l) (a : Int) (ha : l.head? = some a) {pr : Int × Int}
    (h : pr ∈ pairwise l) (hne : pr.1 ≠ a) : pr.1 ∈ inner l ∧ ∃ p0, (p0, pr.1) ∈ pairwise l := by
  induction l generalizing a with
  | nil => simp [pairwise] at h
  | cons c l ih =>
    simp only [List.head?_cons, Option.some.injEq] at ha
    subst ha
    cases l with
    | nil => simp [pairwise] at h
    | cons b rest =>
      rcases (mem_pairwise_cons c b rest pr).mp h with rfl | h'
      · exact absurd rfl hne
      · by_cases hb : pr.1 = b
        · -- the pair starts at `b`: `b` is inner (something follows it) and `(c, b)` is a pair
          refine ⟨?_, c, by rw [hb]; simp [pairwise]⟩
          cases rest with
          | nil => simp [pairwise] at h'
          | cons e rest' => rw [hb]; simp [inner, List.dropLast]
        · obtain ⟨i1, p0, i2⟩ := ih hg.2 b rfl h' hb
          refine ⟨?_, p0, (mem_pairwise_cons c b rest _).mpr (Or.inr i2)⟩
          -- inner (c :: b :: rest) = b :: inner (b :: rest) when rest is non-empty
          cases rest with
          | nil => simp [pairwise] at h'
          | cons e rest' =>
            simp only [inner, List.drop_succ_cons, List.drop_zero] at i1 ⊢
            simp only [List.dropLast] at i1 ⊢
            exact List.mem_cons_of_mem _ i1

/-- an inner entry is the left end of a pair and the right end of another -/
theorem inner_pairs {l : List Int} {y : Int} (h : y ∈ inner l) : (∃ b, (y, b) ∈ pairwise l) ∧ ∃ a, (a, y) ∈ pairwise l := by
  induction l with
  | nil => simp [inner] at h
  | cons c l ih =>
    cases l with
    | nil => simp [inner] at h
    | cons b rest =>
      cases rest with
      | nil => simp [inner] at h
      | cons e rest' =>
        -- inner (c :: b :: e :: rest') = b :: inner (b :: e :: rest')
        have hin : inner (c :: b :: e :: rest') = b :: inner (b :: e :: rest') := by
          simp [inner, List.dropLast]
        rw [hin] at h
        rcases List.mem_cons.mp h with rfl | h'
        · exact ⟨⟨e, by simp [pairwise]⟩, ⟨c, by simp [pairwise]⟩⟩
        · obtain ⟨⟨b', hb'⟩, ⟨a', ha'⟩⟩ := ih h'
          exact ⟨⟨b', (mem_pairwise_cons c b (e :: rest') _).mpr (Or.inr hb')⟩,
            ⟨a', (mem_pairwise_cons c b (e :: rest') _).mpr (Or.inr ha')⟩⟩

/-- the shape of a valid split vector of a side of length `n` -/
structure SplitsOK (n : Int) (l : List Int) : Prop where
  gapped : Gapped l
  first : l.head? = some 0
  last : l.getLast? = some (n - 1)
  two : 2 ≤ l.length

theorem SplitsOK.bounds {n : Int} {l : List Int} (s : SplitsOK n l) : ∀ x ∈ l, 0 ≤ x ∧ x ≤ n - 1 := by
  obtain ⟨hg, hf, hl, _⟩ := s
  intro x hx
  constructor
  · cases l with
    | nil => cases hx
    | cons a rest =>
      simp only [List.head?_cons, Option.some.injEq] at hf
      subst hf
      rcases List.mem_cons.mp hx with rfl | hx
      · omega
      · have := hg.head_lt x hx; omega
  · -- every entry is at most the last one
    have key : ∀ (l : List Int) (z : Int), Gapped l → l.getLast? = some z → ∀ x ∈ l, x ≤ z := by
      intro l
      induction l with
      | nil => intro z _ _ x hx; cases hx
      | cons a rest ih =>
        intro z hg hl x hx
        cases rest with
        | nil =>
          simp at hl hx; omega
        | cons b rest' =>
          have hl' : (b :: rest').getLast? = some z := by simpa [List.getLast?_cons_cons] using hl
          rcases List.mem_cons.mp hx with rfl | hx
          · have := ih z hg.2 hl' b (List.mem_cons_self ..); have := hg.1; omega
          · exact ih z hg.2 hl' x hx
    exact key l _ hg hl x hx

theorem foldl_min_eq (l : List Int) (a : Int) (h : ∀ x ∈ l, a ≤ x) : l.foldl min a = a := by
  induction l generalizing a with
  | nil => rfl
  | cons b rest ih =>
    simp only [List.foldl_cons]
    have hb := h b (List.mem_cons_self ..)
    have : min a b = a := by omega
    rw [this]
    exact ih a (fun x hx => h x (List.mem_cons_of_mem _ hx))

theorem foldl_max_eq (l : List Int) (a z : Int) (hg : Gapped (a :: l)) (hz : (a :: l).getLast? = some z) :
    l.foldl max a = z := by
  induction l generalizing a with
  | nil => simp at hz; simp [hz]
  | cons b rest ih =>
    simp only [List.foldl_cons]
    have : max a b = b := by have := hg.1; omega
    rw [this]
    exact ih b hg.2 (by simpa [List.getLast?_cons_cons] using hz)

theorem SplitsOK.listMin_eq {n : Int} {l : List Int} (s : SplitsOK n l) : listMin l = 0 := by
  obtain ⟨hg, hf, hl, _⟩ := s
  cases l with
  | nil => simp at hf
  | cons a rest =>
    simp only [List.head?_cons, Option.some.injEq] at hf
    subst hf
    simp only [listMin, List.headD_cons, List.foldl_cons]
    have : min (0 : Int) 0 = 0 := by omega
    rw [this]
    exact foldl_min_eq rest 0 (fun x hx => by have := hg.head_lt x hx; omega)

theorem SplitsOK.listMax_eq {n : Int} {l : List Int} (s : SplitsOK n l) : listMax l = n - 1 := by
  obtain ⟨hg, hf, hl, _⟩ := s
  cases l with
  | nil => simp at hf
  | cons a rest =>
    simp only [listMax, List.headD_cons, List.foldl_cons]
    have : max a a = a := by omega
    rw [this]
    exact foldl_max_eq rest a _ hg hl

/-! ### walls -/

/-- the room grid before the passages: walls on the split rows and columns, floor elsewhere -/
theorem drawRoomGrid_spec (h w : Nat) (ys xs : List Int) (sy : SplitsOK h ys) (sx : SplitsOK w xs) :
    ∃ g1, drawRoomGrid (Grid.fill h w .floor) ys xs = .ok g1 ∧ g1.WF ∧ g1.h = h ∧ g1.w = w ∧
      ∀ q, g1.contains q = true → g1.at q = if q.y ∈ ys ∨ q.x ∈ xs then .wall else .floor := by
  have wf0 : (Grid.fill h w .floor).WF := Grid.tab_WF _ _ _
  have hc0 : ∀ q : Pos, (Grid.fill h w .floor).contains q = true ↔ 0 ≤ q.y ∧ q.y < h ∧ 0 ≤ q.x ∧ q.x < w := by
    intro q; rw [Grid.contains_iff]; simp [Grid.fill]
  unfold drawRoomGrid
  simp only [sy.listMin_eq, sy.listMax_eq, sx.listMin_eq, sx.listMax_eq]
  obtain ⟨g1, e1, wf1, gh1, gw1, hat1⟩ := drawAll_spec (Grid.fill h w .floor) wf0
    (cartesian ys (intRange 0 ((w : Int) - 1))) .wall (by
      intro p hp
      rw [mem_cartesian'] at hp
      rw [hc0]
      have := sy.bounds p.y hp.1
      have := (mem_intRange _ _ _).mp hp.2
      omega)
  have hc1 : ∀ q : Pos, g1.contains q = true ↔ 0 ≤ q.y ∧ q.y < h ∧ 0 ≤ q.x ∧ q.x < w := by
    intro q; rw [Grid.contains_iff, gh1, gw1]; simp [Grid.fill]
  obtain ⟨g2, e2, wf2, gh2, gw2, hat2⟩ := drawAll_spec g1 wf1
    (cartesian ((intRange 0 ((h : Int) - 1)).filter fun y => !ys.contains y) xs) .wall (by
      intro p hp
      rw [mem_cartesian'] at hp
      rw [hc1]
      have hy := (mem_intRange _ _ _).mp (List.mem_filter.mp hp.1).1
      have := sx.bounds p.x hp.2
      omega)
  refine ⟨g2, by simp only [e1, e2], wf2, by rw [gh2, gh1]; simp [Grid.fill], by rw [gw2, gw1]; simp [Grid.fill], ?_⟩
  intro q hq
  have hq' : 0 ≤ q.y ∧ q.y < h ∧ 0 ≤ q.x ∧ q.x < w := by
    rw [Grid.contains_iff, gh2, gw2, gh1, gw1] at hq; simpa [Grid.fill] using hq
  rw [hat2 q, hat1 q]
  simp only [mem_cartesian', mem_intRange, List.mem_filter, List.contains_eq_mem, Bool.not_eq_true',
    decide_eq_false_iff_not]
  have hfill : (Grid.fill h w .floor).at q = .floor := by
    rw [Grid.at_fill, (hc0 q).mpr hq']; rfl
  by_cases hy : q.y ∈ ys
  · by_cases hx : q.x ∈ xs
    · have c2 : ¬ (((0 ≤ q.y ∧ q.y ≤ (h : Int) - 1) ∧ ¬ q.y ∈ ys) ∧ q.x ∈ xs) := by
        rintro ⟨⟨_, h⟩, _⟩; exact h hy
      simp [hy, hx, c2, hq'.2.2.1]
      intro; omega
    · have c2 : ¬ (((0 ≤ q.y ∧ q.y ≤ (h : Int) - 1) ∧ ¬ q.y ∈ ys) ∧ q.x ∈ xs) := by
        rintro ⟨_, h⟩; exact hx h
      simp [hy, hx, c2, hq'.2.2.1]
      intro; omega
  · by_cases hx : q.x ∈ xs
    · have c2 : (((0 ≤ q.y ∧ q.y ≤ (h : Int) - 1) ∧ ¬ q.y ∈ ys) ∧ q.x ∈ xs) := ⟨⟨⟨hq'.1, by omega⟩, hy⟩, hx⟩
      simp [hy, hx, c2]
    · have c2 : ¬ (((0 ≤ q.y ∧ q.y ≤ (h : Int) - 1) ∧ ¬ q.y ∈ ys) ∧ q.x ∈ xs) := by
        rintro ⟨_, h⟩; exact hx h
      simp [hy, hx, c2, hfill]

/-! ### passages -/

/-- a sequence of passages: every slot gets one opening strictly inside its wall segment, every cell is
either what it was or an opening -/
theorem passages_spec {α : Type} (mk : α → Int → Pos) (lo hi : α → Int) (slots : List α) (g : Grid)
    (wf : g.WF) (d : DrawSt) (hgap : ∀ t ∈ slots, lo t + 2 ≤ hi t)
    (hin : ∀ t ∈ slots, ∀ v, lo t < v → v < hi t → g.contains (mk t v) = true) :
    ∃ g' d', slots.foldlM (fun acc t => passage (mk t) (lo t) (hi t) acc) (g, d) = .ok (g', d') ∧
      g'.WF ∧ g'.h = g.h ∧ g'.w = g.w ∧
      (∀ t ∈ slots, ∃ v, lo t < v ∧ v < hi t ∧ g'.at (mk t v) = .floor) ∧
      (∀ q, g'.at q = g.at q ∨ (g'.at q = .floor ∧ ∃ t ∈ slots, ∃ v, lo t < v ∧ v < hi t ∧ q = mk t v)) := by
  induction slots generalizing g d with
  | nil => exact ⟨g, d, rfl, wf, rfl, rfl, fun t ht => (by cases ht), fun q => Or.inl rfl⟩
  | cons t rest ih =>
    have hg := hgap t (List.mem_cons_self ..)
    obtain ⟨v, d1, hdraw, hv1, hv2⟩ := drawIntegers_some (lo t + 1) (hi t) (by omega) d
    have hc : g.contains (mk t v) = true := hin t (List.mem_cons_self ..) v (by omega) hv2
    have hset := Grid.setE_ok g (mk t v) .floor hc
    obtain ⟨g', d', hfold, wf', gh', gw', hopen, hcells⟩ := ih (g.setP (mk t v) .floor) (Grid.setP_WF g wf _ _) d1
      (fun s hs => hgap s (List.mem_cons_of_mem _ hs))
      (fun s hs u h1 h2 => by simpa using hin s (List.mem_cons_of_mem _ hs) u h1 h2)
    refine ⟨g', d', ?_, wf', by simpa using gh', by simpa using gw', ?_, ?_⟩
    · simp only [List.foldlM_cons, passage, hdraw, hset]
      exact hfold
    · intro s hs
      rcases List.mem_cons.mp hs with rfl | hs
      · refine ⟨v, by omega, hv2, ?_⟩
        rcases hcells (mk s v) with h | ⟨h, _⟩
        · rw [h, Grid.at_setP g wf _ _ hc, if_pos rfl]
        · exact h
      · exact hopen s hs
    · intro q
      rcases hcells q with h | ⟨h, s, hs, u, h1, h2, hq⟩
      · rw [Grid.at_setP g wf _ _ hc] at h
        by_cases hq : q = mk t v
        · rw [if_pos hq] at h
          exact Or.inr ⟨h, t, List.mem_cons_self .., v, by omega, hv2, hq⟩
        · rw [if_neg hq] at h; exact Or.inl h
      · exact Or.inr ⟨h, s, List.mem_cons_of_mem _ hs, u, h1, h2, hq⟩

theorem inner_sub {l : List Int} {x : Int} (h : x ∈ inner l) : x ∈ l :=
  List.mem_of_mem_drop (List.dropLast_subset _ h)

/-- the grid of `rooms` / `memory_rooms` once walls and passages are drawn -/
structure RoomsGrid (h w : Nat) (ys xs : List Int) (g : Grid) : Prop where
  wf : g.WF
  gh : g.h = h
  gw : g.w = w
  room : ∀ q, g.contains q = true → q.y ∉ ys → q.x ∉ xs → g.at q = .floor
  kinds : ∀ q, g.contains q = true → g.at q = .wall ∨ g.at q = .floor
  hpass : ∀ y ∈ inner ys, ∀ pr ∈ pairwise xs, ∃ v, pr.1 < v ∧ v < pr.2 ∧ g.at ⟨y, v⟩ = .floor
  vpass : ∀ pr ∈ pairwise ys, ∀ x ∈ inner xs, ∃ u, pr.1 < u ∧ u < pr.2 ∧ g.at ⟨u, x⟩ = .floor
  floors : ∀ q, g.contains q = true → g.at q = .floor →
    (q.y ∉ ys ∧ q.x ∉ xs) ∨ (q.y ∈ inner ys ∧ ∃ pr ∈ pairwise xs, pr.1 < q.x ∧ q.x < pr.2) ∨
    (q.x ∈ inner xs ∧ ∃ pr ∈ pairwise ys, pr.1 < q.y ∧ q.y < pr.2)

/-- the code's check (`np.any(np.diff(l) < 2)`) is exactly the negation of `Gapped` -/
theorem tooClose_eq_false_iff (l : List Int) : tooClose l = false ↔ Gapped l := by
  induction l with
  | nil => simp [tooClose, Gapped]
  | cons a rest ih =>
    cases rest with
    | nil => simp [tooClose, Gapped]
    | cons b rest' =>
      simp only [tooClose, Gapped, Bool.or_eq_false_iff, decide_eq_false_iff_not, ih]
      constructor
      · rintro ⟨h, g⟩; exact ⟨by omega, g⟩
      · rintro ⟨h, g⟩; exact ⟨by omega, g⟩

theorem SplitsOK.notTooClose {n : Int} {l : List Int} (s : SplitsOK n l) : tooClose l = false :=
  (tooClose_eq_false_iff l).mpr s.gapped

theorem roomsGrid_spec (sh : Shape) (lh lw : Int) (ys xs : List Int) (d : DrawSt)
    (hh : 0 ≤ sh.h) (hw : 0 ≤ sh.w) (hl : 1 ≤ lh ∧ 1 ≤ lw)
    (sy : SplitsOK sh.h ys) (sx : SplitsOK sh.w xs) :
    ∃ g d', roomsGrid sh lh lw ys xs d = .ok (g, d') ∧ RoomsGrid sh.h.toNat sh.w.toNat ys xs g := by
  have ehh : ((sh.h.toNat : Nat) : Int) = sh.h := by omega
  have eww : ((sh.w.toNat : Nat) : Int) = sh.w := by omega
  have sy' : SplitsOK (sh.h.toNat : Nat) ys := by rw [ehh]; exact sy
  have sx' : SplitsOK (sh.w.toNat : Nat) xs := by rw [eww]; exact sx
  obtain ⟨g1, e1, wf1, gh1, gw1, hat1⟩ := drawRoomGrid_spec sh.h.toNat sh.w.toNat ys xs sy' sx'
  have hc1 : ∀ q : Pos, 0 ≤ q.y → q.y ≤ sh.h - 1 → 0 ≤ q.x → q.x ≤ sh.w - 1 → g1.contains q = true := by
    intro q a b c e; rw [Grid.contains_iff, gh1, gw1]; omega
  -- horizontal walls
  obtain ⟨g2, d2, e2, wf2, gh2, gw2, open2, cells2⟩ := passages_spec
    (fun (t : Int × (Int × Int)) v => (⟨t.1, v⟩ : Pos)) (fun t => t.2.1) (fun t => t.2.2)
    ((inner ys).flatMap fun y => (pairwise xs).map fun pr => (y, pr)) g1 wf1 d
    (by
      intro t ht
      simp only [List.mem_flatMap, List.mem_map] at ht
      obtain ⟨y, _, pr, hpr, rfl⟩ := ht
      exact pairwise_gap sx.gapped hpr)
    (by
      intro t ht v h1 h2
      simp only [List.mem_flatMap, List.mem_map] at ht
      obtain ⟨y, hy, pr, hpr, rfl⟩ := ht
      have by1 := sy.bounds y (inner_sub hy)
      have bx1 := sx.bounds pr.1 (pairwise_mem hpr).1
      have bx2 := sx.bounds pr.2 (pairwise_mem hpr).2
      simp only at h1 h2
      exact hc1 _ by1.1 by1.2 (by simp only; omega) (by simp only; omega))
  have hc2 : ∀ q : Pos, 0 ≤ q.y → q.y ≤ sh.h - 1 → 0 ≤ q.x → q.x ≤ sh.w - 1 → g2.contains q = true := by
    intro q a b c e; rw [Grid.contains_iff, gh2, gh1, gw2, gw1]; omega
  -- vertical walls
  obtain ⟨g3, d3, e3, wf3, gh3, gw3, open3, cells3⟩ := passages_spec
    (fun (t : (Int × Int) × Int) v => (⟨v, t.2⟩ : Pos)) (fun t => t.1.1) (fun t => t.1.2)
    ((pairwise ys).flatMap fun pr => (inner xs).map fun x => (pr, x)) g2 wf2 d2
    (by
      intro t ht
      simp only [List.mem_flatMap, List.mem_map] at ht
      obtain ⟨pr, hpr, x, _, rfl⟩ := ht
      exact pairwise_gap sy.gapped hpr)
    (by
      intro t ht v h1 h2
      simp only [List.mem_flatMap, List.mem_map] at ht
      obtain ⟨pr, hpr, x, hx, rfl⟩ := ht
      have bx1 := sx.bounds x (inner_sub hx)
      have by1 := sy.bounds pr.1 (pairwise_mem hpr).1
      have by2 := sy.bounds pr.2 (pairwise_mem hpr).2
      simp only at h1 h2
      exact hc2 _ (by simp only; omega) (by simp only; omega) bx1.1 bx1.2)
  have hcond : (decide (lh < 1) || decide (lw < 1)) = false := by simp; omega
  refine ⟨g3, d3, ?_, wf3, by rw [gh3, gh2, gh1], by rw [gw3, gw2, gw1], ?_, ?_, ?_, ?_, ?_⟩
  · simp only [roomsGrid, hcond, sy.notTooClose, sx.notTooClose, Bool.false_eq_true, if_false, e1, drawPassages]
    simp only [inner] at e2 e3
    rw [e2]
    exact e3
  · -- room cells stay floor
    intro q hq hy hx
    have hq1 : g1.contains q = true := by simpa [Grid.contains, gh3, gw3, gh2, gw2] using hq
    have h1 : g1.at q = .floor := by rw [hat1 q hq1]; simp [hy, hx]
    have h2 : g2.at q = .floor := by rcases cells2 q with h | ⟨h, _⟩; rw [h, h1]; exact h
    rcases cells3 q with h | ⟨h, _⟩
    · rw [h, h2]
    · exact h
  · intro q hq
    have hq1 : g1.contains q = true := by simpa [Grid.contains, gh3, gw3, gh2, gw2] using hq
    have h1 : g1.at q = .wall ∨ g1.at q = .floor := by rw [hat1 q hq1]; split <;> simp
    have h2 : g2.at q = .wall ∨ g2.at q = .floor := by
      rcases cells2 q with h | ⟨h, _⟩
      · rw [h]; exact h1
      · exact Or.inr h
    rcases cells3 q with h | ⟨h, _⟩
    · rw [h]; exact h2
    · exact Or.inr h
  · intro y hy pr hpr
    obtain ⟨v, a, b, c⟩ := open2 (y, pr) (by simp only [List.mem_flatMap, List.mem_map]; exact ⟨y, hy, pr, hpr, rfl⟩)
    refine ⟨v, a, b, ?_⟩
    rcases cells3 ⟨y, v⟩ with h | ⟨h, _⟩
    · rw [h]; exact c
    · exact h
  · intro pr hpr x hx
    exact open3 (pr, x) (by simp only [List.mem_flatMap, List.mem_map]; exact ⟨pr, hpr, x, hx, rfl⟩)
  · intro q hq hfl
    have hq1 : g1.contains q = true := by simpa [Grid.contains, gh3, gw3, gh2, gw2] using hq
    rcases cells3 q with h3 | ⟨_, t, ht, v, a, b, rfl⟩
    · rcases cells2 q with h2 | ⟨_, t, ht, v, a, b, rfl⟩
      · rw [h3, h2, hat1 q hq1] at hfl
        by_cases hw' : q.y ∈ ys ∨ q.x ∈ xs
        · rw [if_pos hw'] at hfl; cases hfl
        · left; exact ⟨fun h => hw' (Or.inl h), fun h => hw' (Or.inr h)⟩
      · right; left
        simp only [List.mem_flatMap, List.mem_map] at ht
        obtain ⟨y, hy, pr, hpr, rfl⟩ := ht
        exact ⟨hy, pr, hpr, a, b⟩
    · right; right
      simp only [List.mem_flatMap, List.mem_map] at ht
      obtain ⟨pr, hpr, x, hx, rfl⟩ := ht
      exact ⟨hx, pr, hpr, a, b⟩

theorem gappedB_iff (l : List Int) : gappedB l = true ↔ Gapped l := by
  induction l with
  | nil => simp [gappedB, Gapped]
  | cons a rest ih =>
    cases rest with
    | nil => simp [gappedB, Gapped]
    | cons b rest' => simp only [gappedB, Gapped, Bool.and_eq_true, decide_eq_true_eq, ih]

/-- the executable check the driver answers for the harness is the hypothesis of the theorems -/
theorem splitsOKb_iff (n : Int) (l : List Int) : splitsOKb n l = true ↔ SplitsOK n l := by
  simp only [splitsOKb, Bool.and_eq_true, beq_iff_eq, decide_eq_true_eq, gappedB_iff]
  constructor
  · rintro ⟨⟨⟨a, b⟩, c⟩, e⟩; exact ⟨a, b, c, e⟩
  · rintro ⟨a, b, c, e⟩; exact ⟨⟨⟨a, b⟩, c⟩, e⟩

end GV
