/-
  The teleport room: row-first L-plans, stepping onto a telepod.
-/
import GridVerse.Lemmas.Walk
import GridVerse.Lemmas.Positions
import GridVerse.Props.C13
set_option linter.unusedSimpArgs false
namespace GV

/-- row first, then column (mirror image of `lplan_then`) -/
theorem lplanH_then (rest : List TransAtom) (stop : State → Action → State → Bool) (goal : State → Bool)
    (s : State) (q : Pos) (more : List Action) (d : DrawSt)
    (hh : ∀ x, Btw s.agent.pos.x q.x x → Pass rest stop goal s ⟨s.agent.pos.y, x⟩)
    (hv : ∀ y, Btw s.agent.pos.y q.y y → Pass rest stop goal s ⟨y, q.x⟩)
    (hmore : checkPlan (.moveAgent :: rest) stop goal (withPos s q) more d = true) :
    checkPlan (.moveAgent :: rest) stop goal s (lPlanH s.agent.o s.agent.pos q ++ more) d = true := by
  unfold lPlanH
  rw [List.append_assoc]
  apply walk_then
  · intro k hk1 hk2
    rw [shift_horiz _ _ _ hk2]
    apply hh
    unfold Btw
    by_cases h : q.x < s.agent.pos.x
    · simp only [h, if_true]; omega
    · simp only [h, if_false]; omega
  · rw [shift_horiz _ _ _ (Nat.le_refl _)]
    have hcorner : (⟨s.agent.pos.y, if q.x < s.agent.pos.x then s.agent.pos.x - ((q.x - s.agent.pos.x).natAbs : Int)
        else s.agent.pos.x + ((q.x - s.agent.pos.x).natAbs : Int)⟩ : Pos) = ⟨s.agent.pos.y, q.x⟩ := by
      rw [Pos.ext_iff']
      refine ⟨rfl, ?_⟩
      show (if q.x < s.agent.pos.x then s.agent.pos.x - ((q.x - s.agent.pos.x).natAbs : Int)
        else s.agent.pos.x + ((q.x - s.agent.pos.x).natAbs : Int)) = q.x
      split <;> omega
    rw [hcorner]
    have := walk_then rest stop goal (if q.y < s.agent.pos.y then .F else .B) (q.y - s.agent.pos.y).natAbs
      (withPos s ⟨s.agent.pos.y, q.x⟩) more d
    simp only [withPos_pos, withPos_o, withPos_withPos] at this
    apply this
    · intro k hk1 hk2
      have e := shift_vert ⟨s.agent.pos.y, q.x⟩ q.y k hk2
      simp only at e
      rw [e]
      have pc := hv (if q.y < s.agent.pos.y then s.agent.pos.y - k else s.agent.pos.y + k) (by
        unfold Btw
        by_cases h : q.y < s.agent.pos.y
        · simp only [h, if_true]; omega
        · simp only [h, if_false]; omega)
      exact ⟨pc.inside, pc.free, pc.quiet, pc.go⟩
    · have e := shift_vert ⟨s.agent.pos.y, q.x⟩ q.y _ (Nat.le_refl _)
      simp only at e
      rw [e]
      have hend : (⟨if q.y < s.agent.pos.y then s.agent.pos.y - ((q.y - s.agent.pos.y).natAbs : Int)
          else s.agent.pos.y + ((q.y - s.agent.pos.y).natAbs : Int), q.x⟩ : Pos) = q := by
        rw [Pos.ext_iff']
        refine ⟨?_, rfl⟩
        show (if q.y < s.agent.pos.y then s.agent.pos.y - ((q.y - s.agent.pos.y).natAbs : Int)
          else s.agent.pos.y + ((q.y - s.agent.pos.y).natAbs : Int)) = q.y
        split <;> omega
      rw [hend]
      exact hmore

/-- walking `n` passable cells and then one more step that lands somewhere else (a telepod) -/
theorem walk_land (rest : List TransAtom) (stop : State → Action → State → Bool) (goal : State → Bool)
    (dir : Orient) (n : Nat) (s : State) (more : List Action) (d d' : DrawSt) (s' : State)
    (hpass : ∀ k, 1 ≤ k → k ≤ n → Pass rest stop goal s (shift s.agent.pos dir k))
    (hland : runChain (.moveAgent :: rest) (withPos s (shift s.agent.pos dir n)) (moveToward s.agent.o dir) d = .ok (s', d'))
    (hok : goal s' = true ∨ stop (withPos s (shift s.agent.pos dir n)) (moveToward s.agent.o dir) s' = false)
    (hmore : checkPlan (.moveAgent :: rest) stop goal s' more d' = true) :
    checkPlan (.moveAgent :: rest) stop goal s (walk s.agent.o dir (n + 1) ++ more) d = true := by
  have hw : walk s.agent.o dir (n + 1) = walk s.agent.o dir n ++ [moveToward s.agent.o dir] := by
    simp only [walk, List.replicate_succ']
  rw [hw, List.append_assoc]
  apply walk_then rest stop goal dir n s _ d hpass
  exact checkPlan_sound_step _ _ _ _ s' _ _ d d' hland hok hmore

/-! ### the teleport step -/

theorem filter_eq_singleton {α : Type} (l : List α) (p : α → Bool) (a : α) (hnd : l.Nodup) (ha : a ∈ l)
    (hpa : p a = true) (huniq : ∀ b ∈ l, p b = true → b = a) : l.filter p = [a] := by
  induction l with
  | nil => cases ha
  | cons x xs ih =>
    rw [List.nodup_cons] at hnd
    by_cases hx : x = a
    · subst hx
      have hrest : xs.filter p = [] := by
        rw [List.filter_eq_nil_iff]
        intro b hb hpb
        have := huniq b (List.mem_cons_of_mem _ hb) (by simpa using hpb)
        subst this
        exact hnd.1 hb
      simp [List.filter_cons, hpa, hrest]
    · have hax : a ∈ xs := by
        rcases List.mem_cons.mp ha with h | h
        · exact absurd h.symm hx
        · exact h
      have hpx : p x = false := by
        cases h : p x with
        | false => rfl
        | true => exact absurd (huniq x (List.mem_cons_self ..) h) hx
      rw [List.filter_cons, hpx]
      simp only [Bool.false_eq_true, if_false]
      exact ih hnd.2 hax (fun b hb => huniq b (List.mem_cons_of_mem _ hb))

/-- the dynamics of the teleport task -/
def tpChain : List TransAtom := [.moveAgent, .turnAgent, .teleport]

/-- stepping onto a telepod whose only partner is `other`: the agent comes out at `other` -/
theorem step_onto_telepod (s : State) (dir : Orient) (d : DrawSt) (t other : Pos) (c : Color) (wf : s.grid.WF)
    (ht : s.agent.pos.add (Pos.ofOrient dir) = t) (hc : s.grid.contains t = true)
    (hat : s.grid.at t = .telepod c)
    (htargets : teleportTargets (withPos s t) c = [other]) :
    runChain tpChain s (moveToward s.agent.o dir) d = .ok (withPos s other, (drawChoice 1 d).2) := by
  have hfree : (s.grid.at (s.agent.pos.add (Pos.ofOrient dir))).blocksMovement = false := by rw [ht, hat]; rfl
  have hmv := moveAgent_toward s dir (by rw [ht]; exact hc) hfree
  rw [ht] at hmv
  have hturn : ∀ s', turnAgent s' (moveToward s.agent.o dir) = s' := by
    intro s'
    have : (moveToward s.agent.o dir).turnOrient = none := by
      cases s.agent.o <;> cases dir <;> rfl
    simp only [turnAgent, this]
  simp only [tpChain, runChain, TransAtom.run, hmv, hturn]
  have hget : (withPos s t).grid.pyGet (withPos s t).agent.pos = .ok (.telepod c) := by
    simp only [withPos_grid, withPos_pos]
    rw [Grid.pyGet_of_contains _ wf _ hc, hat]
  simp only [teleport, hget, Obj.isKind, Obj.kind, Obj.color, beq_self_eq_true, if_true, htargets]
  have hdc : ∃ d', drawChoice 1 d = (some 0, d') := by
    unfold drawChoice
    simp only [DrawSt.pop, DrawSt.note]
    rw [if_neg (by decide)]
    split <;> simp [Nat.mod_one]
  obtain ⟨d', hd'⟩ := hdc
  simp only [List.length_singleton, List.isEmpty_cons, Bool.false_eq_true, if_false]
  rw [hd']
  simp [List.getD]
  rfl

end GV
