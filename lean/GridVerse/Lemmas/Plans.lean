/-
  Plan segments for the key-door chain: turning, picking up, opening.
-/
import GridVerse.Lemmas.Walk
set_option linter.unusedSimpArgs false
namespace GV

/-- the shipped key-door dynamics -/
def kdChain : List TransAtom := [.moveAgent, .turnAgent, .actuateDoor, .pickndrop]

/-- the state with the agent turned to `o` -/
def withO (s : State) (o : Orient) : State := { s with agent := { s.agent with o := o } }

@[simp] theorem withO_grid (s : State) (o : Orient) : (withO s o).grid = s.grid := rfl
@[simp] theorem withO_pos (s : State) (o : Orient) : (withO s o).agent.pos = s.agent.pos := rfl
@[simp] theorem withO_o (s : State) (o : Orient) : (withO s o).agent.o = o := rfl
@[simp] theorem withO_held (s : State) (o : Orient) : (withO s o).agent.held = s.agent.held := rfl

theorem front_eq (a : Agent) : a.front = a.pos.add (Pos.ofOrient a.o) := by
  obtain ⟨p, o, h⟩ := a
  cases o <;> simp [Agent.front, Agent.transform, Transform.act, Orient.act, Pos.ofOrient, Pos.add]

theorem kd_turnL (s : State) (d : DrawSt) :
    runChain kdChain s .turnL d = .ok (withO s (s.agent.o.mul .L), d) := rfl

theorem kd_turnR (s : State) (d : DrawSt) :
    runChain kdChain s .turnR d = .ok (withO s (s.agent.o.mul .R), d) := rfl

/-- turning on the spot, then carrying on -/
theorem turns_then (stop : State → Action → State → Bool) (goal : State → Bool) (s : State) (t : Orient)
    (more : List Action) (d : DrawSt) (hns : ∀ s0 a o', stop s0 a (withO s o') = false)
    (hmore : checkPlan kdChain stop goal (withO s t) more d = true) :
    checkPlan kdChain stop goal s (turnsTo s.agent.o t ++ more) d = true := by
  obtain ⟨g, ⟨p, o, held⟩⟩ := s
  cases o <;> cases t <;>
    first
    | exact hmore
    | exact checkPlan_sound_step kdChain stop goal _ _ _ _ d d (kd_turnL _ d) (Or.inr (hns _ _ _)) hmore
    | exact checkPlan_sound_step kdChain stop goal _ _ _ _ d d (kd_turnR _ d) (Or.inr (hns _ _ _)) hmore
    | exact checkPlan_sound_step kdChain stop goal _ _ _ _ d d (kd_turnL _ d) (Or.inr (hns _ _ _))
        (checkPlan_sound_step kdChain stop goal _ _ _ _ d d (kd_turnL _ d) (Or.inr (hns _ _ _)) hmore)

/-- picking up the key in front with empty hands -/
theorem pick_then (stop : State → Action → State → Bool) (goal : State → Bool) (s : State) (c : Color)
    (more : List Action) (d : DrawSt)
    (hin : s.grid.contains (s.agent.pos.add (Pos.ofOrient s.agent.o)) = true)
    (hkey : s.grid.at (s.agent.pos.add (Pos.ofOrient s.agent.o)) = .key c)
    (hheld : s.agent.held = .noneObj)
    (hns : stop s .pickNDrop
      ⟨s.grid.setP (s.agent.pos.add (Pos.ofOrient s.agent.o)) .floor, { s.agent with held := .key c }⟩ = false)
    (hmore : checkPlan kdChain stop goal
      ⟨s.grid.setP (s.agent.pos.add (Pos.ofOrient s.agent.o)) .floor, { s.agent with held := .key c }⟩ more d = true) :
    checkPlan kdChain stop goal s (.pickNDrop :: more) d = true := by
  apply checkPlan_sound_step kdChain stop goal s _ _ _ d d _ (Or.inr hns) hmore
  have : runChain kdChain s .pickNDrop d = .ok (pickndrop s .pickNDrop, d) := rfl
  rw [this]
  simp only [pickndrop, front_eq, hin, hkey, hheld, if_true, Obj.isKind, Obj.kind, Obj.holdable,
    Bool.or_true, beq_self_eq_true]

/-- opening the locked door in front with the matching key in hand -/
theorem actuate_then (stop : State → Action → State → Bool) (goal : State → Bool) (s : State) (c : Color)
    (more : List Action) (d : DrawSt)
    (hin : s.grid.contains (s.agent.pos.add (Pos.ofOrient s.agent.o)) = true)
    (hdoor : s.grid.at (s.agent.pos.add (Pos.ofOrient s.agent.o)) = .door .locked c)
    (hheld : s.agent.held = .key c)
    (hns : stop s .actuate
      { s with grid := s.grid.setP (s.agent.pos.add (Pos.ofOrient s.agent.o)) (.door .open c) } = false)
    (hmore : checkPlan kdChain stop goal
      { s with grid := s.grid.setP (s.agent.pos.add (Pos.ofOrient s.agent.o)) (.door .open c) } more d = true) :
    checkPlan kdChain stop goal s (.actuate :: more) d = true := by
  apply checkPlan_sound_step kdChain stop goal s _ _ _ d d _ (Or.inr hns) hmore
  have : runChain kdChain s .actuate d = .ok (pickndrop (actuateDoor s .actuate) .actuate, d) := rfl
  rw [this]
  have h2 : ∀ s', pickndrop s' .actuate = s' := fun _ => rfl
  rw [h2]
  simp only [actuateDoor, front_eq, hin, hdoor, hheld, if_true]

end GV
