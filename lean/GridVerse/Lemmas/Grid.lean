/-
  Helper lemmas on list-of-lists grids: all grid access in the proofs goes through these.
-/
import GridVerse.Model.Grid
set_option linter.unusedSimpArgs false
namespace GV

@[simp] theorem Grid.tab_h (h w f) : (Grid.tab h w f).h = h := rfl
@[simp] theorem Grid.tab_w (h w f) : (Grid.tab h w f).w = w := rfl

@[simp] theorem Grid.cell_tab (h w f i j) (hi : i < h) (hj : j < w) :
    (Grid.tab h w f).cell i j = f i j := by
  simp [Grid.tab, Grid.cell, hi, hj]

theorem Grid.tab_WF (h w f) : (Grid.tab h w f).WF := by
  refine ⟨by simp [Grid.tab], ?_⟩
  intro r hr
  simp only [Grid.tab, List.mem_map, List.mem_range] at hr
  obtain ⟨i, _, rfl⟩ := hr
  simp

theorem Grid.contains_iff (g : Grid) (p : Pos) :
    g.contains p = true ↔ 0 ≤ p.y ∧ p.y < g.h ∧ 0 ≤ p.x ∧ p.x < g.w := by
  simp [Grid.contains, and_assoc]

theorem Grid.at_of_contains (g : Grid) (p : Pos) (h : g.contains p = true) :
    g.at p = g.cell p.y.toNat p.x.toNat := by
  simp [Grid.at, h]

theorem Grid.at_of_not_contains (g : Grid) (p : Pos) (h : g.contains p = false) :
    g.at p = .hidden := by
  simp [Grid.at, h]

/-- inside a well-formed grid Python's `grid[p]` is the padded lookup and never raises -/
theorem Grid.pyGet_of_contains (g : Grid) (hw : g.WF) (p : Pos) (h : g.contains p = true) :
    g.pyGet p = .ok (g.at p) := by
  obtain ⟨hl, hr⟩ := hw
  rw [Grid.at_of_contains g p h]
  rw [Grid.contains_iff] at h
  obtain ⟨h1, h2, h3, h4⟩ := h
  have hy : p.y.toNat < g.cells.length := by omega
  have e1 : pyIdx g.cells p.y = some (g.cells[p.y.toNat]) := by
    simp [pyIdx, h1, hy]
  have hrow := hr _ (List.getElem_mem hy)
  have hx : p.x.toNat < (g.cells[p.y.toNat]).length := by omega
  have e2 : pyIdx (g.cells[p.y.toNat]) p.x = some ((g.cells[p.y.toNat])[p.x.toNat]) := by
    simp [pyIdx, h3, hx]
  simp only [Grid.pyGet, e1, e2, Grid.cell]
  simp [hy, hx]

@[simp] theorem Grid.set_h (g : Grid) (y x o) : (g.set y x o).h = g.h := rfl
@[simp] theorem Grid.set_w (g : Grid) (y x o) : (g.set y x o).w = g.w := rfl
@[simp] theorem Grid.setP_h (g : Grid) (p o) : (g.setP p o).h = g.h := rfl
@[simp] theorem Grid.setP_w (g : Grid) (p o) : (g.setP p o).w = g.w := rfl
@[simp] theorem Grid.contains_set (g : Grid) (y x o) (p : Pos) :
    (g.set y x o).contains p = g.contains p := rfl
@[simp] theorem Grid.contains_setP (g : Grid) (q o) (p : Pos) :
    (g.setP q o).contains p = g.contains p := rfl

theorem Grid.cell_set (g : Grid) (y x i j : Nat) (o : Obj) :
    (g.set y x o).cell i j =
      if i = y ∧ j = x ∧ y < g.cells.length ∧ x < (g.cells[y]?.getD []).length then o
      else g.cell i j := by
  unfold Grid.set Grid.cell
  simp only [List.getElem?_modify]
  by_cases hiy : i = y
  · subst hiy
    cases hrow : g.cells[i]? with
    | none =>
      have : ¬ i < g.cells.length := by
        intro h; simp [List.getElem?_eq_getElem h] at hrow
      simp [this]
    | some row =>
      have hlt : i < g.cells.length := by
        rcases List.getElem?_eq_some_iff.mp hrow with ⟨h, _⟩; exact h
      simp only [Option.map_some, Option.getD_some, if_true, true_and, hlt]
      by_cases hjx : j = x
      · subst hjx
        by_cases hx : j < row.length
        · simp [List.getElem?_set, hx]
        · simp [List.getElem?_set, hx]
      · simp [List.getElem?_set, hjx, Ne.symm hjx]
  · have : ¬ (y = i) := fun h => hiy h.symm
    simp [hiy, this]

theorem Grid.set_WF (g : Grid) (hg : g.WF) (y x o) : (g.set y x o).WF := by
  obtain ⟨hl, hr⟩ := hg
  refine ⟨by simp [Grid.set, hl], ?_⟩
  intro r hr'
  simp only [Grid.set] at hr'
  rw [List.mem_iff_getElem?] at hr'
  obtain ⟨k, hk⟩ := hr'
  rw [List.getElem?_modify] at hk
  by_cases hky : y = k
  · subst hky
    cases h : g.cells[y]? with
    | none => simp [h] at hk
    | some row =>
      simp [h] at hk
      subst hk
      simp
      exact hr _ (List.mem_of_getElem? h)
  · simp [hky] at hk
    exact hr _ (List.mem_of_getElem? hk)

theorem Grid.setP_WF (g : Grid) (hg : g.WF) (p o) : (g.setP p o).WF := Grid.set_WF g hg _ _ _

theorem Grid.cell_set_WF (g : Grid) (hg : g.WF) (y x i j : Nat) (o : Obj) (hy : y < g.h) (hx : x < g.w) :
    (g.set y x o).cell i j = if i = y ∧ j = x then o else g.cell i j := by
  rw [Grid.cell_set]
  obtain ⟨hl, hr⟩ := hg
  have h1 : y < g.cells.length := by omega
  have h2 : x < (g.cells[y]).length := by
    rw [hr _ (List.getElem_mem h1)]; exact hx
  simp [h1, h2]

theorem Pos.ext_iff' (p q : Pos) : p = q ↔ p.y = q.y ∧ p.x = q.x := by
  cases p; cases q; simp

/-- the effect of `grid[p] = o` (p inside) on the padded lookup -/
theorem Grid.at_setP (g : Grid) (hg : g.WF) (p : Pos) (o : Obj) (hp : g.contains p = true) (q : Pos) :
    (g.setP p o).at q = if q = p then o else g.at q := by
  by_cases hq : g.contains q = true
  · rw [Grid.at_of_contains _ _ (by simpa using hq), Grid.at_of_contains _ _ hq]
    rw [Grid.contains_iff] at hp hq
    unfold Grid.setP
    rw [Grid.cell_set_WF g hg _ _ _ _ _ (by omega) (by omega)]
    by_cases hqp : q = p
    · subst hqp; simp
    · have : ¬ (q.y.toNat = p.y.toNat ∧ q.x.toNat = p.x.toNat) := by
        intro ⟨h1, h2⟩
        apply hqp
        rw [Pos.ext_iff']
        omega
      simp [this, hqp]
  · have hq' : g.contains q = false := by simpa using hq
    have hne : q ≠ p := by
      intro h; subst h; rw [hp] at hq'; cases hq'
    rw [Grid.at_of_not_contains _ _ (by simpa using hq'), Grid.at_of_not_contains _ _ hq']
    simp [hne]

theorem Grid.swap_WF (g : Grid) (hg : g.WF) (p q) : (g.swap p q).WF := by
  unfold Grid.swap
  exact Grid.setP_WF _ (Grid.setP_WF _ hg _ _) _ _

@[simp] theorem Grid.contains_swap (g : Grid) (p q r : Pos) :
    (g.swap p q).contains r = g.contains r := rfl
@[simp] theorem Grid.swap_h (g : Grid) (p q) : (g.swap p q).h = g.h := rfl
@[simp] theorem Grid.swap_w (g : Grid) (p q) : (g.swap p q).w = g.w := rfl

theorem Grid.at_swap (g : Grid) (hg : g.WF) (p q : Pos) (hp : g.contains p = true)
    (hq : g.contains q = true) (r : Pos) :
    (g.swap p q).at r = if r = q then g.at p else if r = p then g.at q else g.at r := by
  unfold Grid.swap
  simp only []
  rw [Grid.at_setP _ (Grid.setP_WF _ hg _ _) q _ (by simpa using hq)]
  rw [Grid.at_setP _ hg p _ hp]

end GV
