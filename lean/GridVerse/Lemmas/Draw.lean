/-
  Specifications of the draw primitives, for every answer stream.
-/
import GridVerse.Model.Reset
import GridVerse.Lemmas.Obstacles
set_option linter.unusedSimpArgs false
namespace GV

theorem drawChoice_pos (n : Nat) (hn : 0 < n) (d : DrawSt) :
    ∃ i d', drawChoice n d = (some i, d') ∧ i < n := by
  have hne : n ≠ 0 := by omega
  refine ⟨(d.note (.choice n)).pop.1 % n, (d.note (.choice n)).pop.2, ?_, Nat.mod_lt _ hn⟩
  simp [drawChoice, hne]

theorem drawIntegers_some (lo hi : Int) (h : lo < hi) (d : DrawSt) :
    ∃ v d', drawIntegers lo hi d = (some v, d') ∧ lo ≤ v ∧ v < hi := by
  have hne : ¬ hi ≤ lo := by omega
  refine ⟨lo + (((d.note (.integers lo hi)).pop.1 % (hi - lo).toNat : Nat) : Int),
    (d.note (.integers lo hi)).pop.2, by simp [drawIntegers, hne], by omega, ?_⟩
  have hpos : 0 < (hi - lo).toNat := by omega
  have := Nat.mod_lt (d.note (.integers lo hi)).pop.1 hpos
  omega

theorem drawIntegers_none (lo hi : Int) (h : hi ≤ lo) (d : DrawSt) : (drawIntegers lo hi d).1 = none := by
  simp [drawIntegers, h]

theorem removeAt_length {α} (l : List α) (i : Nat) (h : i < l.length) : (removeAt l i).length + 1 = l.length := by
  induction l generalizing i with
  | nil => simp at h
  | cons x xs ih =>
    cases i with
    | zero => simp [removeAt]
    | succ j => simp only [removeAt, List.length_cons]; have := ih j (by simpa using h); omega

theorem removeAt_sub {α} (l : List α) (i : Nat) : ∀ x ∈ removeAt l i, x ∈ l := by
  induction l generalizing i with
  | nil => intro x hx; simp [removeAt] at hx
  | cons y ys ih =>
    cases i with
    | zero => intro x hx; simp only [removeAt] at hx; exact List.mem_cons_of_mem _ hx
    | succ j =>
      intro x hx
      simp only [removeAt, List.mem_cons] at hx
      rcases hx with rfl | hx
      · simp
      · exact List.mem_cons_of_mem _ (ih j x hx)

theorem removeAt_nodup {α} (l : List α) (i : Nat) (hnd : l.Nodup) :
    (removeAt l i).Nodup ∧ ∀ (h : i < l.length), l[i] ∉ removeAt l i := by
  induction l generalizing i with
  | nil => exact ⟨by simp [removeAt], fun h => by simp at h⟩
  | cons y ys ih =>
    obtain ⟨hy, hys⟩ := List.nodup_cons.mp hnd
    cases i with
    | zero => exact ⟨hys, fun _ => by simpa [removeAt] using hy⟩
    | succ j =>
      obtain ⟨h1, h2⟩ := ih j hys
      refine ⟨?_, ?_⟩
      · simp only [removeAt]
        exact List.nodup_cons.mpr ⟨fun hm => hy (removeAt_sub ys j y hm), h1⟩
      · intro h
        simp only [removeAt, List.getElem_cons_succ, List.mem_cons, not_or]
        have hj : j < ys.length := by simpa using h
        exact ⟨fun e => hy (e ▸ List.getElem_mem hj), h2 hj⟩

/-- sequential sampling: `k` distinct elements of the pool, for every stream -/
theorem pickSeq_spec {α} [Inhabited α] (k : Nat) (pool : List α) (d : DrawSt) (hk : k ≤ pool.length)
    (hnd : pool.Nodup) :
    (pickSeq k pool d).1.length = k ∧ (pickSeq k pool d).1.Nodup ∧ ∀ x ∈ (pickSeq k pool d).1, x ∈ pool := by
  induction k generalizing pool d with
  | zero => simp [pickSeq]
  | succ n ih =>
    have hlen : pool.length ≠ 0 := by omega
    simp only [pickSeq, hlen, if_false]
    have hi : d.pop.1 % pool.length < pool.length := Nat.mod_lt _ (by omega)
    have hrl := removeAt_length pool _ hi
    obtain ⟨hrn, hrnot⟩ := removeAt_nodup pool (d.pop.1 % pool.length) hnd
    obtain ⟨h1, h2, h3⟩ := ih (removeAt pool (d.pop.1 % pool.length)) d.pop.2 (by omega) hrn
    have hget : pool[d.pop.1 % pool.length]! = pool[d.pop.1 % pool.length] := by
      simp [hi]
    refine ⟨by simp [h1], ?_, ?_⟩
    · simp only [List.nodup_cons]
      refine ⟨?_, h2⟩
      intro hm
      rw [hget] at hm
      exact hrnot hi (h3 _ hm)
    · intro x hx
      simp only [List.mem_cons] at hx
      rcases hx with rfl | hx
      · rw [hget]; exact List.getElem_mem hi
      · exact removeAt_sub _ _ _ (h3 x hx)

theorem drawChoiceNR_some (n k : Nat) (hk : k ≤ n) (d : DrawSt) :
    ∃ l d', drawChoiceNR n k d = (some l, d') ∧ l.length = k ∧ l.Nodup ∧ ∀ i ∈ l, i < n := by
  have hne : ¬ n < k := by omega
  have hs := pickSeq_spec k (List.range n) (d.note (.choiceNR n k)) (by simpa using hk) List.nodup_range
  refine ⟨_, _, by simp only [drawChoiceNR, hne, if_false]; rfl, hs.1, hs.2.1, ?_⟩
  intro i hi
  exact List.mem_range.mp (hs.2.2 i hi)

theorem drawChoiceNR_none (n k : Nat) (hk : n < k) (d : DrawSt) : (drawChoiceNR n k d).1 = none := by
  simp [drawChoiceNR, hk]

theorem drawShuffle_spec (n : Nat) (d : DrawSt) :
    (drawShuffle n d).1.length = n ∧ (drawShuffle n d).1.Nodup ∧ ∀ i ∈ (drawShuffle n d).1, i < n := by
  have hs := pickSeq_spec n (List.range n) (d.note (.shuffle n)) (by simp) List.nodup_range
  refine ⟨hs.1, hs.2.1, ?_⟩
  intro i hi
  exact List.mem_range.mp (hs.2.2 i hi)

/-! ### drawing onto grids -/

theorem Grid.setE_ok (g : Grid) (p : Pos) (o : Obj) (h : g.contains p = true) :
    g.setE p o = .ok (g.setP p o) := by simp [Grid.setE, h]

/-- drawing over positions inside the grid never fails and overwrites exactly those cells -/
theorem drawAll_spec (g : Grid) (hg : g.WF) (ps : List Pos) (o : Obj)
    (hps : ∀ p ∈ ps, g.contains p = true) :
    ∃ g', drawAll g ps o = .ok g' ∧ g'.WF ∧ g'.h = g.h ∧ g'.w = g.w ∧
      ∀ q, g'.at q = if q ∈ ps then o else g.at q := by
  induction ps generalizing g with
  | nil => exact ⟨g, rfl, hg, rfl, rfl, fun q => by simp⟩
  | cons p ps ih =>
    have hp := hps p (by simp)
    obtain ⟨g', h1, h2, h3, h4, h5⟩ := ih (g.setP p o) (Grid.setP_WF g hg p o)
      (fun q hq => by simpa using hps q (by simp [hq]))
    refine ⟨g', ?_, h2, by simpa using h3, by simpa using h4, ?_⟩
    · simp only [drawAll, List.foldlM_cons, Grid.setE_ok g p o hp]
      exact h1
    · intro q
      rw [h5 q, Grid.at_setP g hg p o hp]
      by_cases hq : q ∈ ps
      · simp [hq]
      · by_cases hqp : q = p
        · simp [hqp]
        · simp [hq, hqp]

theorem Grid.at_fill (h w : Nat) (o : Obj) (q : Pos) :
    (Grid.fill h w o).at q = if (Grid.fill h w o).contains q then o else .hidden := by
  by_cases hc : (Grid.fill h w o).contains q = true
  · rw [Grid.at_of_contains _ _ hc]
    rw [Grid.contains_iff] at hc
    simp only [Grid.fill, Grid.tab_h, Grid.tab_w] at hc
    simp only [Grid.fill]
    rw [Grid.cell_tab _ _ _ _ _ (by omega) (by omega)]
    simp [Grid.fill, Grid.contains_iff, hc]
  · have : (Grid.fill h w o).contains q = false := by simpa using hc
    rw [Grid.at_of_not_contains _ _ this]; simp [this]

theorem Area.contains_iff' (a : Area) (p : Pos) :
    a.contains p = true ↔ a.ymin ≤ p.y ∧ p.y ≤ a.ymax ∧ a.xmin ≤ p.x ∧ p.x ≤ a.xmax := by
  simp [Area.contains, and_assoc]

/-- membership in the iterators of `Area` for the grid area `[0, h-1] × [0, w-1]` -/
theorem mem_intRange (lo hi v : Int) : v ∈ intRange lo hi ↔ lo ≤ v ∧ v ≤ hi := by
  simp only [intRange, List.mem_map, List.mem_range]
  constructor
  · rintro ⟨k, hk, rfl⟩; omega
  · rintro ⟨h1, h2⟩; exact ⟨(v - lo).toNat, by omega, by omega⟩

theorem mem_borderPositions (a : Area) (ha : a.WF) (p : Pos) :
    p ∈ a.borderPositions ↔
      a.contains p = true ∧ (p.y = a.ymin ∨ p.y = a.ymax ∨ p.x = a.xmin ∨ p.x = a.xmax) := by
  obtain ⟨h1, h2⟩ := ha
  simp only [Area.borderPositions, List.mem_append, List.mem_flatMap, List.mem_map, List.mem_cons,
    List.not_mem_nil, or_false, mem_intRange, Area.contains, Bool.and_eq_true, decide_eq_true_eq]
  constructor
  · rintro (⟨y, hy, x, hx, rfl⟩ | ⟨y, hy, x, hx, rfl⟩)
    · simp only; rcases hy with rfl | rfl <;> omega
    · simp only; rcases hx with rfl | rfl <;> omega
  · rintro ⟨⟨⟨⟨c1, c2⟩, c3⟩, c4⟩, hb⟩
    by_cases hy : p.y = a.ymin ∨ p.y = a.ymax
    · left; exact ⟨p.y, hy, p.x, ⟨c3, c4⟩, rfl⟩
    · right
      refine ⟨p.y, by omega, p.x, by omega, rfl⟩

theorem mem_insidePositions (a : Area) (p : Pos) :
    p ∈ a.insidePositions ↔ a.ymin < p.y ∧ p.y < a.ymax ∧ a.xmin < p.x ∧ p.x < a.xmax := by
  simp only [Area.insidePositions, List.mem_flatMap, List.mem_map, mem_intRange]
  constructor
  · rintro ⟨y, hy, x, hx, rfl⟩; simp only; omega
  · rintro ⟨h1, h2, h3, h4⟩; exact ⟨p.y, by omega, p.x, by omega, rfl⟩

end GV
