/-
  The key-door room at its three stages (key on the floor / picked up, door locked / open) and the
  passability of its cells.
-/
import GridVerse.Lemmas.Plans
import GridVerse.Lemmas.Positions
import GridVerse.Props.C13
set_option linter.unusedSimpArgs false
namespace GV

theorem head_of_all_eq' {l : List Pos} {p : Pos} (hne : p ∈ l) (hall : ∀ q ∈ l, q = p) {dflt : Pos} :
    l.headD dflt = p := by
  cases l with
  | nil => cases hne
  | cons x xs => exact hall x (List.mem_cons_self ..)

/-- what the key-door grid holds at `q`: `key` is where the key lies (if still on the floor) -/
def kdCell (sh : Shape) (xw yd : Int) (key : Option Pos) (dopen : Bool) (q : Pos) : Obj :=
  if some q = key then .key .yellow
  else if q = ⟨yd, xw⟩ then .door (if dopen then .open else .locked) .yellow
  else if q.x = xw ∧ 1 ≤ q.y ∧ q.y ≤ sh.h - 2 then .wall
  else if q = ⟨sh.h - 2, sh.w - 2⟩ then .exit .none
  else if onBorder sh.h.toNat sh.w.toNat q then .wall else .floor

structure KDGrid (sh : Shape) (xw yd : Int) (key : Option Pos) (dopen : Bool) (g : Grid) : Prop where
  wf : g.WF
  gh : g.h = sh.h.toNat
  gw : g.w = sh.w.toNat
  cell : ∀ q, g.contains q = true → g.at q = kdCell sh xw yd key dopen q

/-- left of the wall column -/
def LeftOf (sh : Shape) (xw : Int) (q : Pos) : Prop := 1 ≤ q.y ∧ q.y ≤ sh.h - 2 ∧ 1 ≤ q.x ∧ q.x < xw
/-- right of the wall column -/
def RightOf (sh : Shape) (xw : Int) (q : Pos) : Prop := 1 ≤ q.y ∧ q.y ≤ sh.h - 2 ∧ xw < q.x ∧ q.x ≤ sh.w - 2

theorem KDGrid.contains {sh : Shape} {xw yd : Int} {key : Option Pos} {dopen : Bool} {g : Grid}
    (k : KDGrid sh xw yd key dopen g) (q : Pos) (h1 : 0 ≤ q.y) (h2 : q.y < sh.h) (h3 : 0 ≤ q.x) (h4 : q.x < sh.w) :
    g.contains q = true := by
  rw [Grid.contains_iff, k.gh, k.gw]; omega

theorem kdCell_left {sh : Shape} {xw yd : Int} {key : Option Pos} {dopen : Bool} {q : Pos}
    (hw : xw ≤ sh.w - 3) (hq : LeftOf sh xw q) :
    kdCell sh xw yd key dopen q = if some q = key then .key .yellow else .floor := by
  obtain ⟨h1, h2, h3, h4⟩ := hq
  unfold kdCell
  split
  · rfl
  · have n1 : q ≠ ⟨yd, xw⟩ := by rw [Ne, Pos.ext_iff']; simp only; omega
    have n2 : ¬ (q.x = xw ∧ 1 ≤ q.y ∧ q.y ≤ sh.h - 2) := by omega
    have n3 : q ≠ ⟨sh.h - 2, sh.w - 2⟩ := by rw [Ne, Pos.ext_iff']; simp only; omega
    have n4 : ¬ onBorder sh.h.toNat sh.w.toNat q := by unfold onBorder; omega
    rw [if_neg n1, if_neg n2, if_neg n3, if_neg n4]

theorem kdCell_right {sh : Shape} {xw yd : Int} {key : Option Pos} {dopen : Bool} {q : Pos}
    (hk : ∀ k, key = some k → k.x < xw) (hx : 2 ≤ xw) (hq : RightOf sh xw q) :
    kdCell sh xw yd key dopen q = if q = ⟨sh.h - 2, sh.w - 2⟩ then .exit .none else .floor := by
  obtain ⟨h1, h2, h3, h4⟩ := hq
  unfold kdCell
  have n0 : ¬ some q = key := by
    intro h; have := hk q h.symm; omega
  have n1 : q ≠ ⟨yd, xw⟩ := by rw [Ne, Pos.ext_iff']; simp only; omega
  have n2 : ¬ (q.x = xw ∧ 1 ≤ q.y ∧ q.y ≤ sh.h - 2) := by omega
  rw [if_neg n0, if_neg n1, if_neg n2]
  split
  · rfl
  · have n4 : ¬ onBorder sh.h.toNat sh.w.toNat q := by unfold onBorder; omega
    rw [if_neg n4]

theorem kd_quiet (s : State) : RestQuiet [.turnAgent, .actuateDoor, .pickndrop] s :=
  ⟨by decide, fun h => absurd h (by decide), fun h => absurd h (by decide)⟩

theorem goalExit_iff (s : State) :
    goalExit s = (s.grid.contains s.agent.pos && (s.grid.at s.agent.pos).isKind .exit) := rfl

/-- reach_exit does not fire on a cell that holds no exit -/
theorem stop_false_of_not_exit (s0 : State) (a : Action) (s' : State) (wf : s'.grid.WF)
    (hc : s'.grid.contains s'.agent.pos = true) (hk : (s'.grid.at s'.agent.pos).isKind .exit = false) :
    stopOf .reachExit s0 a s' = false := by
  simp only [stopOf, TermFn.eval, termOverlap, Grid.pyGet_of_contains _ wf _ hc, hk]

/-- cells left of the wall are passable at every stage -/
theorem kd_pass_left {sh : Shape} {xw yd : Int} {key : Option Pos} {dopen : Bool} {s : State}
    (k : KDGrid sh xw yd key dopen s.grid) (hw : xw ≤ sh.w - 3) (c : Pos) (hc : LeftOf sh xw c) :
    Pass [.turnAgent, .actuateDoor, .pickndrop] (stopOf .reachExit) goalExit s c := by
  have hin : s.grid.contains c = true := by
    obtain ⟨h1, h2, h3, h4⟩ := hc
    exact k.contains c (by omega) (by omega) (by omega) (by omega)
  have hat := k.cell c hin
  rw [kdCell_left hw hc] at hat
  refine ⟨hin, by rw [hat]; split <;> rfl, kd_quiet _, Or.inr ?_⟩
  intro s0 a _ _
  apply stop_false_of_not_exit s0 a (withPos s c) k.wf hin
  simp only [withPos_grid, withPos_pos, hat]
  split <;> rfl

/-- cells right of the wall are passable (the exit being the goal) -/
theorem kd_pass_right {sh : Shape} {xw yd : Int} {key : Option Pos} {dopen : Bool} {s : State}
    (k : KDGrid sh xw yd key dopen s.grid) (hk : ∀ p, key = some p → p.x < xw) (hx : 2 ≤ xw) (c : Pos)
    (hc : RightOf sh xw c) :
    Pass [.turnAgent, .actuateDoor, .pickndrop] (stopOf .reachExit) goalExit s c := by
  have hin : s.grid.contains c = true := by
    obtain ⟨h1, h2, h3, h4⟩ := hc
    exact k.contains c (by omega) (by omega) (by omega) (by omega)
  have hat := k.cell c hin
  rw [kdCell_right hk hx hc] at hat
  refine ⟨hin, by rw [hat]; split <;> rfl, kd_quiet _, ?_⟩
  by_cases he : c = ⟨sh.h - 2, sh.w - 2⟩
  · left
    rw [if_pos he] at hat
    simp only [goalExit, withPos_grid, withPos_pos, hin, hat, Bool.true_and]
    rfl
  · right
    intro s0 a _ _
    apply stop_false_of_not_exit s0 a (withPos s c) k.wf hin
    simp only [withPos_grid, withPos_pos, hat, he, if_false]
    rfl

/-- the open door is passable -/
theorem kd_pass_door {sh : Shape} {xw yd : Int} {key : Option Pos} {s : State}
    (k : KDGrid sh xw yd key true s.grid) (hk : ∀ p, key = some p → p.x < xw)
    (h1 : 1 ≤ yd) (h2 : yd ≤ sh.h - 2) (h3 : 2 ≤ xw) (h4 : xw ≤ sh.w - 3) :
    Pass [.turnAgent, .actuateDoor, .pickndrop] (stopOf .reachExit) goalExit s ⟨yd, xw⟩ := by
  have hin : s.grid.contains ⟨yd, xw⟩ = true := k.contains _ (by simp only; omega) (by simp only; omega) (by simp only; omega) (by simp only; omega)
  have hat := k.cell _ hin
  have n0 : ¬ some (⟨yd, xw⟩ : Pos) = key := by
    intro h; have := hk _ h.symm; simp only at this; omega
  simp only [kdCell, n0, if_false, if_true] at hat
  refine ⟨hin, by rw [hat]; rfl, kd_quiet _, Or.inr ?_⟩
  intro s0 a _ _
  apply stop_false_of_not_exit s0 a (withPos s ⟨yd, xw⟩) k.wf hin
  simp only [withPos_grid, withPos_pos, hat]
  rfl

/-- picking the key up leaves the room without it -/
theorem KDGrid.pick {sh : Shape} {xw yd : Int} {kp : Pos} {dopen : Bool} {g : Grid}
    (k : KDGrid sh xw yd (some kp) dopen g) (hw : xw ≤ sh.w - 3) (hkp : LeftOf sh xw kp) :
    KDGrid sh xw yd none dopen (g.setP kp .floor) := by
  have hin : g.contains kp = true := by
    obtain ⟨h1, h2, h3, h4⟩ := hkp
    exact k.contains kp (by omega) (by omega) (by omega) (by omega)
  refine ⟨Grid.setP_WF g k.wf _ _, k.gh, k.gw, ?_⟩
  intro q hq
  rw [Grid.at_setP g k.wf kp _ hin]
  by_cases hqe : q = kp
  · rw [if_pos hqe, hqe, kdCell_left hw hkp]; simp
  · rw [if_neg hqe, k.cell q (by simpa using hq)]
    unfold kdCell
    have : ¬ some q = some kp := by simpa using hqe
    rw [if_neg this]
    simp

/-- opening the door -/
theorem KDGrid.open {sh : Shape} {xw yd : Int} {g : Grid} (k : KDGrid sh xw yd none false g)
    (h1 : 1 ≤ yd) (h2 : yd ≤ sh.h - 2) (h3 : 2 ≤ xw) (h4 : xw ≤ sh.w - 3) :
    KDGrid sh xw yd none true (g.setP ⟨yd, xw⟩ (.door .open .yellow)) := by
  have hin : g.contains ⟨yd, xw⟩ = true := k.contains _ (by simp only; omega) (by simp only; omega) (by simp only; omega) (by simp only; omega)
  refine ⟨Grid.setP_WF g k.wf _ _, k.gh, k.gw, ?_⟩
  intro q hq
  rw [Grid.at_setP g k.wf _ _ hin]
  by_cases hqe : q = ⟨yd, xw⟩
  · rw [if_pos hqe]; simp [kdCell, hqe]
  · rw [if_neg hqe, k.cell q (by simpa using hq)]
    simp [kdCell, hqe]

/-! ### locating the key, the door and the exit -/

theorem kdCell_cases (sh : Shape) (xw yd : Int) (key : Option Pos) (dopen : Bool) (q : Pos) :
    (some q = key ∧ kdCell sh xw yd key dopen q = .key .yellow) ∨
    (q = ⟨yd, xw⟩ ∧ ∃ st, kdCell sh xw yd key dopen q = .door st .yellow) ∨
    (q = ⟨sh.h - 2, sh.w - 2⟩ ∧ kdCell sh xw yd key dopen q = .exit .none) ∨
    kdCell sh xw yd key dopen q = .wall ∨ kdCell sh xw yd key dopen q = .floor := by
  unfold kdCell
  by_cases c0 : some q = key
  · left; exact ⟨c0, if_pos c0⟩
  · right; rw [if_neg c0]
    by_cases c1 : q = ⟨yd, xw⟩
    · left; exact ⟨c1, _, if_pos c1⟩
    · right; rw [if_neg c1]
      by_cases c2 : q.x = xw ∧ 1 ≤ q.y ∧ q.y ≤ sh.h - 2
      · right; left; exact if_pos c2
      · rw [if_neg c2]
        by_cases c3 : q = ⟨sh.h - 2, sh.w - 2⟩
        · left; exact ⟨c3, if_pos c3⟩
        · right; rw [if_neg c3]
          by_cases c4 : onBorder sh.h.toNat sh.w.toNat q
          · left; exact if_pos c4
          · right; exact if_neg c4

theorem kd_find_key {sh : Shape} {xw yd : Int} {kp : Pos} {dopen : Bool} {g : Grid}
    (k : KDGrid sh xw yd (some kp) dopen g) (hin : g.contains kp = true) (dflt : Pos) :
    (g.find fun o => o.isKind .key).headD dflt = kp := by
  apply head_of_all_eq'
  · rw [Grid.mem_find]; refine ⟨hin, ?_⟩
    rw [k.cell kp hin]; simp [kdCell, Obj.isKind, Obj.kind]
  · intro q hq
    rw [Grid.mem_find] at hq
    obtain ⟨hqc, hqk⟩ := hq
    rw [k.cell q hqc] at hqk
    rcases kdCell_cases sh xw yd (some kp) dopen q with ⟨h0, _⟩ | ⟨_, st, h⟩ | ⟨_, h⟩ | h | h
    · exact Option.some.inj h0
    all_goals (rw [h] at hqk; simp [Obj.isKind, Obj.kind] at hqk)

theorem kd_find_door {sh : Shape} {xw yd : Int} {key : Option Pos} {dopen : Bool} {g : Grid}
    (k : KDGrid sh xw yd key dopen g) (hin : g.contains ⟨yd, xw⟩ = true) (hk : ∀ p, key = some p → p.x < xw)
    (dflt : Pos) : (g.find fun o => o.isKind .door).headD dflt = ⟨yd, xw⟩ := by
  have n0 : ¬ some (⟨yd, xw⟩ : Pos) = key := by
    intro h; have := hk _ h.symm; simp only at this; omega
  apply head_of_all_eq'
  · rw [Grid.mem_find]; refine ⟨hin, ?_⟩
    rw [k.cell _ hin]; simp [kdCell, n0, Obj.isKind, Obj.kind]
  · intro q hq
    rw [Grid.mem_find] at hq
    obtain ⟨hqc, hqk⟩ := hq
    rw [k.cell q hqc] at hqk
    rcases kdCell_cases sh xw yd key dopen q with ⟨_, h⟩ | ⟨h0, _⟩ | ⟨_, h⟩ | h | h
    · rw [h] at hqk; simp [Obj.isKind, Obj.kind] at hqk
    · exact h0
    all_goals (rw [h] at hqk; simp [Obj.isKind, Obj.kind] at hqk)

theorem kd_find_exit {sh : Shape} {xw yd : Int} {key : Option Pos} {dopen : Bool} {g : Grid}
    (k : KDGrid sh xw yd key dopen g) (hk : ∀ p, key = some p → p.x < xw) (hx : 2 ≤ xw) (hw : xw ≤ sh.w - 3)
    (hh : 4 ≤ sh.h) : firstExit g = ⟨sh.h - 2, sh.w - 2⟩ := by
  have hr : RightOf sh xw ⟨sh.h - 2, sh.w - 2⟩ := by unfold RightOf; simp only; omega
  have hin : g.contains ⟨sh.h - 2, sh.w - 2⟩ = true :=
    k.contains _ (by simp only; omega) (by simp only; omega) (by simp only; omega) (by simp only; omega)
  unfold firstExit
  apply head_of_all_eq'
  · rw [Grid.mem_find]; refine ⟨hin, ?_⟩
    rw [k.cell _ hin, kdCell_right hk hx hr]; simp [Obj.isKind, Obj.kind]
  · intro q hq
    rw [Grid.mem_find] at hq
    obtain ⟨hqc, hqk⟩ := hq
    rw [k.cell q hqc] at hqk
    rcases kdCell_cases sh xw yd key dopen q with ⟨_, h⟩ | ⟨_, st, h⟩ | ⟨h0, _⟩ | h | h
    · rw [h] at hqk; simp [Obj.isKind, Obj.kind] at hqk
    · rw [h] at hqk; simp [Obj.isKind, Obj.kind] at hqk
    · exact h0
    all_goals (rw [h] at hqk; simp [Obj.isKind, Obj.kind] at hqk)

end GV
