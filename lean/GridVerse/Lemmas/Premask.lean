/-
  The slice → rotate pipeline of `from_visibility`: cell (i, j) of the pre-mask view is the world
  cell at `transform * Position(ymin + i, xmin + j)` (Hidden outside the grid).
-/
import GridVerse.Model.Visibility
import GridVerse.Lemmas.Rot
set_option linter.unusedSimpArgs false
namespace GV

theorem Grid.at_congr (g : Grid) {p q : Pos} (h : p = q) : g.at p = g.at q := by rw [h]

theorem Grid.subgrid_cell (g : Grid) (a : Area) (i j : Nat) (hi : i < a.height) (hj : j < a.width) :
    (g.subgrid a).cell i j = g.at ⟨a.ymin + i, a.xmin + j⟩ := by
  simp [Grid.subgrid, hi, hj]

theorem premask_shape (s : State) (a : Area) (ha : a.WF) :
    (premask s a).h = a.height ∧ (premask s a).w = a.width := by
  obtain ⟨h1, h2⟩ := ha
  unfold premask Transform.actArea Agent.transform
  cases s.agent.o <;>
    simp only [Grid.rot, Grid.subgrid, Grid.tab_h, Grid.tab_w, Orient.actArea, Area.shift,
      Area.height, Area.width] <;>
    constructor <;> congr 1 <;> omega

theorem premask_WF (s : State) (a : Area) : (premask s a).WF := by
  unfold premask
  exact Grid.rot_WF _ _ (Grid.tab_WF _ _ _)

/-- the cell map of the view (the core of C05 and C07) -/
theorem premask_cell (s : State) (a : Area) (ha : a.WF) (i j : Nat)
    (hi : i < a.height) (hj : j < a.width) :
    (premask s a).cell i j = s.grid.at (s.agent.transform.act ⟨a.ymin + i, a.xmin + j⟩) := by
  obtain ⟨h1, h2⟩ := ha
  have hi' : (i : Int) < a.ymax - a.ymin + 1 := by simp only [Area.height] at hi; omega
  have hj' : (j : Int) < a.xmax - a.xmin + 1 := by simp only [Area.width] at hj; omega
  unfold premask Transform.actArea Transform.act Agent.transform
  generalize s.agent.pos = p
  generalize s.grid = g
  cases s.agent.o
  · -- F
    simp only [Grid.rot, Orient.actArea, Orient.act, Pos.add]
    rw [Grid.subgrid_cell _ _ _ _ (by simp only [Area.height, Area.shift]; omega)
      (by simp only [Area.width, Area.shift]; omega)]
    apply Grid.at_congr; rw [Pos.ext_iff']; simp only [Area.shift]; omega
  · -- B
    simp only [Grid.rot, Orient.actArea, Orient.act, Pos.add]
    have hh : (g.subgrid (Area.shift p ⟨-a.ymax, -a.ymin, -a.xmax, -a.xmin⟩)).h = a.height := by
      simp only [Grid.subgrid, Grid.tab_h, Area.height, Area.shift]; congr 1; omega
    have hw : (g.subgrid (Area.shift p ⟨-a.ymax, -a.ymin, -a.xmax, -a.xmin⟩)).w = a.width := by
      simp only [Grid.subgrid, Grid.tab_w, Area.width, Area.shift]; congr 1; omega
    rw [Grid.cell_tab _ _ _ _ _ (by rw [hh]; exact hi) (by rw [hw]; exact hj), hh, hw]
    rw [Grid.subgrid_cell _ _ _ _ (by simp only [Area.height, Area.shift] at *; omega)
      (by simp only [Area.width, Area.shift] at *; omega)]
    simp only [Area.height, Area.width] at hi hj ⊢
    apply Grid.at_congr; rw [Pos.ext_iff']; simp only [Area.shift]; omega
  · -- L
    simp only [Grid.rot, Orient.actArea, Orient.act, Pos.add]
    have hh : (g.subgrid (Area.shift p ⟨-a.xmax, -a.xmin, a.ymin, a.ymax⟩)).h = a.width := by
      simp only [Grid.subgrid, Grid.tab_h, Area.height, Area.width, Area.shift]; congr 1; omega
    have hw : (g.subgrid (Area.shift p ⟨-a.xmax, -a.xmin, a.ymin, a.ymax⟩)).w = a.height := by
      simp only [Grid.subgrid, Grid.tab_w, Area.width, Area.height, Area.shift]; congr 1; omega
    rw [Grid.cell_tab _ _ _ _ _ (by rw [hw]; exact hi) (by rw [hh]; exact hj), hh]
    rw [Grid.subgrid_cell _ _ _ _ (by simp only [Area.height, Area.width, Area.shift] at *; omega)
      (by simp only [Area.height, Area.width, Area.shift] at *; omega)]
    simp only [Area.height, Area.width] at hi hj ⊢
    apply Grid.at_congr; rw [Pos.ext_iff']; simp only [Area.shift]; omega
  · -- R
    simp only [Grid.rot, Orient.actArea, Orient.act, Pos.add]
    have hh : (g.subgrid (Area.shift p ⟨a.xmin, a.xmax, -a.ymax, -a.ymin⟩)).h = a.width := by
      simp only [Grid.subgrid, Grid.tab_h, Area.height, Area.width, Area.shift]; congr 1; omega
    have hw : (g.subgrid (Area.shift p ⟨a.xmin, a.xmax, -a.ymax, -a.ymin⟩)).w = a.height := by
      simp only [Grid.subgrid, Grid.tab_w, Area.width, Area.height, Area.shift]; congr 1; omega
    rw [Grid.cell_tab _ _ _ _ _ (by rw [hw]; exact hi) (by rw [hh]; exact hj), hw]
    rw [Grid.subgrid_cell _ _ _ _ (by simp only [Area.height, Area.width, Area.shift] at *; omega)
      (by simp only [Area.height, Area.width, Area.shift] at *; omega)]
    simp only [Area.height, Area.width] at hi hj ⊢
    apply Grid.at_congr; rw [Pos.ext_iff']; simp only [Area.shift]; omega

/-- the world position shown at view index (i, j) -/
def viewWorld (s : State) (a : Area) (i j : Nat) : Pos :=
  s.agent.transform.act ⟨a.ymin + i, a.xmin + j⟩

theorem applyMask_cell (g : Grid) (m : Mask) (i j : Nat) (hi : i < g.h) (hj : j < g.w) :
    (applyMask g m).cell i j = if m ⟨(i : Int), (j : Int)⟩ then g.cell i j else .hidden := by
  simp [applyMask, hi, hj]

@[simp] theorem applyMask_h (g : Grid) (m : Mask) : (applyMask g m).h = g.h := rfl
@[simp] theorem applyMask_w (g : Grid) (m : Mask) : (applyMask g m).w = g.w := rfl

end GV
