/-
  Refinement of the reference-level layer (Model/Heap.lean) to the pure layer (Model/Transition.lean):
  on a heap state whose nodes are *separated* (no object instance occurs at two places), each in-place
  transition function computes, on the value the heap state denotes, exactly what the pure function
  computes; separation is preserved, so this lifts to chains.
-/
import GridVerse.Lemmas.Heap
import GridVerse.Lemmas.Positions
set_option linter.unusedSimpArgs false
set_option linter.unusedVariables false
namespace GV

/-! ### chains of object references -/

/-- the `k`-th reference down the content chain of `r` (a box's content, its content, …) -/
def Heap.chainAt (hp : Heap) : Nat → Ref → Option Ref
  | 0, r => some r
  | k + 1, r =>
    match (hp.objOf r).content with
    | some c => hp.chainAt k c
    | none => none

/-- top-level places an object reference can sit in: a grid cell, or the agent's hand (`none`) -/
def Heap.top (hp : Heap) (s : HState) : Option Pos → Ref
  | some p => hp.cellRef s p
  | none => hp.heldRef s

def HState.validLoc (s : HState) : Option Pos → Prop
  | some p => s.contains p = true
  | none => True

/-- a family of chains is separated: a reference occurs at one place and one depth only -/
def SepC (V : Option Pos → Prop) (C : Option Pos → Nat → Option Ref) : Prop :=
  ∀ l1 l2 k1 k2 r, V l1 → V l2 → C l1 k1 = some r → C l2 k2 = some r → l1 = l2 ∧ k1 = k2

def Heap.chains (hp : Heap) (s : HState) : Option Pos → Nat → Option Ref :=
  fun l k => hp.chainAt k (hp.top s l)

theorem chainAt_congr {h h' : Heap} (e : h'.objOf = h.objOf) (k : Nat) (r : Ref) :
    h'.chainAt k r = h.chainAt k r := by
  induction k generalizing r with
  | zero => rfl
  | succ k ih => simp only [Heap.chainAt, e, ih]

/-- every reference in the chain of an object that denotes a value is allocated -/
theorem Denotes.chain_lt {h : Heap} (o : Obj) (r : Ref) (d : Denotes h r o) (k : Nat) (x : Ref)
    (hx : h.chainAt k r = some x) : x < h.next := by
  induction o generalizing r k with
  | box c ih =>
    unfold Denotes at d
    obtain ⟨lt, _, cr, hc, dc⟩ := d
    cases k with
    | zero => simp only [Heap.chainAt, Option.some.injEq] at hx; exact hx ▸ lt
    | succ k => simp only [Heap.chainAt, hc] at hx; exact ih cr dc k hx
  | _ =>
    unfold Denotes at d
    obtain ⟨lt, _, hc⟩ := d
    cases k with
    | zero => simp only [Heap.chainAt, Option.some.injEq] at hx; exact hx ▸ lt
    | succ k => simp only [Heap.chainAt, hc] at hx; cases hx

/-- `Denotes` only reads allocated object nodes -/
theorem Denotes.congr {h h' : Heap} (o : Obj) (r : Ref) (d : Denotes h r o)
    (hn : h.next ≤ h'.next) (he : ∀ k x, h.chainAt k r = some x → h'.objOf x = h.objOf x) : Denotes h' r o := by
  induction o generalizing r with
  | box c ih =>
    unfold Denotes at d ⊢
    obtain ⟨lt, ho, cr, hc, dc⟩ := d
    have e0 := he 0 r rfl
    refine ⟨Nat.lt_of_lt_of_le lt hn, by rw [e0]; exact ho, cr, by rw [e0]; exact hc, ih cr dc ?_⟩
    intro k x hx
    exact he (k + 1) x (by simp only [Heap.chainAt, hc]; exact hx)
  | _ =>
    unfold Denotes at d ⊢
    obtain ⟨lt, ho, hc⟩ := d
    have e0 := he 0 r rfl
    exact ⟨Nat.lt_of_lt_of_le lt hn, by rw [e0]; exact ho, by rw [e0]; exact hc⟩

/-- a chain is unchanged when the object nodes along it are -/
theorem chainAt_congr_on {h h' : Heap} (r : Ref) (k : Nat)
    (he : ∀ j x, j < k → h.chainAt j r = some x → h'.objOf x = h.objOf x) : h'.chainAt k r = h.chainAt k r := by
  induction k generalizing r with
  | zero => rfl
  | succ k ih =>
    have e0 := he 0 r (by omega) rfl
    simp only [Heap.chainAt, e0]
    cases hc : (h.objOf r).content with
    | none => rfl
    | some c =>
      simp only
      apply ih
      intro j x hj hx
      exact he (j + 1) x (by omega) (by simp only [Heap.chainAt, hc]; exact hx)

/-! ### the row structure -/

structure RowsOK (hp : Heap) (s : HState) : Prop where
  rowsLen : (hp.rowsOf s.outer).length = s.h
  rowsNodup : (hp.rowsOf s.outer).Nodup
  rowLen : ∀ row ∈ hp.rowsOf s.outer, (hp.cellsOf row).length = s.w

theorem RowsOK.rowAt {hp : Heap} {s : HState} (ro : RowsOK hp s) (p : Pos) (hc : s.contains p = true) :
    p.y.toNat < (hp.rowsOf s.outer).length ∧
    (hp.rowsOf s.outer).getD p.y.toNat 0 = (hp.rowsOf s.outer)[p.y.toNat]'(by
      rw [HState.contains_iff] at hc; rw [ro.rowsLen]; omega) := by
  rw [HState.contains_iff] at hc
  have hy : p.y.toNat < (hp.rowsOf s.outer).length := by rw [ro.rowsLen]; omega
  exact ⟨hy, by simp [List.getD, hy]⟩

/-- reading a cell after `grid[p] = r` -/
theorem cellRef_assign {hp : Heap} {s : HState} (ro : RowsOK hp s) (p q : Pos) (hp' : s.contains p = true)
    (hq : s.contains q = true) (r : Ref) :
    (hp.assignCell s p r).cellRef s q = if q = p then r else hp.cellRef s q := by
  have hpc := hp'
  have hqc := hq
  rw [HState.contains_iff] at hpc hqc
  obtain ⟨hpy, hprow⟩ := ro.rowAt p hp'
  obtain ⟨hqy, hqrow⟩ := ro.rowAt q hq
  have hpm : (hp.rowsOf s.outer)[p.y.toNat] ∈ hp.rowsOf s.outer := List.getElem_mem hpy
  have hqm : (hp.rowsOf s.outer)[q.y.toNat] ∈ hp.rowsOf s.outer := List.getElem_mem hqy
  have lp := ro.rowLen _ hpm
  have lq := ro.rowLen _ hqm
  simp only [Heap.cellRef, Heap.assignCell, Heap.setCells, hprow, hqrow]
  by_cases hrow : (hp.rowsOf s.outer)[q.y.toNat] = (hp.rowsOf s.outer)[p.y.toNat]
  · have hyy : q.y.toNat = p.y.toNat := (List.getElem_inj ro.rowsNodup).mp hrow
    rw [if_pos hrow]
    by_cases hx : q.x.toNat = p.x.toNat
    · have : q = p := by rw [Pos.ext_iff']; omega
      rw [if_pos this, hx]
      simp [List.getD, lp, hpc]
    · have : q ≠ p := by intro e; apply hx; rw [e]
      rw [if_neg this]
      simp only [List.getD, List.getElem?_set, hrow]
      rw [if_neg (Ne.symm hx)]
  · rw [if_neg hrow]
    have : q ≠ p := by
      intro e; apply hrow; subst e; rfl
    rw [if_neg this]

theorem rowsOK_assign {hp : Heap} {s : HState} (ro : RowsOK hp s) (p : Pos) (r : Ref) :
    RowsOK (hp.assignCell s p r) s := by
  refine ⟨ro.rowsLen, ro.rowsNodup, ?_⟩
  intro row hrow
  have hrow' : row ∈ hp.rowsOf s.outer := hrow
  simp only [Heap.assignCell, Heap.setCells]
  split
  · rename_i e; subst e; simpa using ro.rowLen _ hrow'
  · exact ro.rowLen _ hrow'

@[simp] theorem assignCell_objOf (hp : Heap) (s : HState) (p : Pos) (r : Ref) : (hp.assignCell s p r).objOf = hp.objOf := rfl
@[simp] theorem assignCell_next (hp : Heap) (s : HState) (p : Pos) (r : Ref) : (hp.assignCell s p r).next = hp.next := rfl
@[simp] theorem assignCell_tfOf (hp : Heap) (s : HState) (p : Pos) (r : Ref) : (hp.assignCell s p r).tfOf = hp.tfOf := rfl
@[simp] theorem assignCell_agentOf (hp : Heap) (s : HState) (p : Pos) (r : Ref) : (hp.assignCell s p r).agentOf = hp.agentOf := rfl
@[simp] theorem assignCell_rowsOf (hp : Heap) (s : HState) (p : Pos) (r : Ref) : (hp.assignCell s p r).rowsOf = hp.rowsOf := rfl

/-! ### what a heap state must satisfy to denote a pure state, cell by cell -/

structure Core (hp : Heap) (s : HState) (st : State) : Prop where
  hh : s.h = st.grid.h
  ww : s.w = st.grid.w
  wf : st.grid.WF
  rows : RowsOK hp s
  cell : ∀ p, s.contains p = true → Denotes hp (hp.cellRef s p) (st.grid.at p)
  tf : hp.tfOf (hp.agentOf s.agent).1 = ⟨st.agent.pos, st.agent.o⟩
  held : Denotes hp (hp.heldRef s) st.agent.held
  agentIn : st.grid.contains st.agent.pos = true

/-- separated representation -/
structure Rep (hp : Heap) (s : HState) (st : State) : Prop where
  core : Core hp s st
  sep : SepC s.validLoc (hp.chains s)

theorem Core.contains {hp : Heap} {s : HState} {st : State} (c : Core hp s st) (p : Pos) :
    s.contains p = st.grid.contains p := by
  simp only [HState.contains, Grid.contains, c.hh, c.ww]

theorem Core.pos {hp : Heap} {s : HState} {st : State} (c : Core hp s st) : hp.pos s = st.agent.pos := by
  simp only [Heap.pos, c.tf]
theorem Core.orient {hp : Heap} {s : HState} {st : State} (c : Core hp s st) : hp.orient s = st.agent.o := by
  simp only [Heap.orient, c.tf]
theorem Core.front {hp : Heap} {s : HState} {st : State} (c : Core hp s st) : hp.front s = st.agent.front := by
  simp only [Heap.front, c.pos, c.orient, Agent.front, Agent.transform]

theorem Core.objAt {hp : Heap} {s : HState} {st : State} (c : Core hp s st) (p : Pos) (hc : s.contains p = true) :
    (hp.objOf (hp.cellRef s p)).obj = st.grid.at p := by
  have d := c.cell p hc
  unfold Denotes at d
  exact d.2.1

theorem Denotes.obj {h : Heap} {r : Ref} {o : Obj} (d : Denotes h r o) : (h.objOf r).obj = o := by
  unfold Denotes at d; exact d.2.1

theorem Denotes.lt {h : Heap} {r : Ref} {o : Obj} (d : Denotes h r o) : r < h.next := by
  unfold Denotes at d; exact d.1

/-- `grid[p] = r` where `r` denotes `o`: the cells of the new heap state denote `grid.setP p o` -/
theorem Core.assign {hp : Heap} {s : HState} {st : State} (c : Core hp s st) (p : Pos) (hc : s.contains p = true)
    (r : Ref) (o : Obj) (d : Denotes hp r o) :
    Core (hp.assignCell s p r) s { st with grid := st.grid.setP p o } := by
  have hcg : st.grid.contains p = true := by rw [← c.contains]; exact hc
  refine ⟨by simp [c.hh], by simp [c.ww], Grid.setP_WF _ c.wf _ _, rowsOK_assign c.rows p r, ?_, ?_, ?_, ?_⟩
  · intro q hq
    rw [cellRef_assign c.rows p q hc hq r]
    simp only
    rw [Grid.at_setP _ c.wf p o hcg q]
    by_cases e : q = p
    · rw [if_pos e, if_pos e]
      exact Denotes.congr o r d (Nat.le_refl _) (fun _ _ _ => rfl)
    · rw [if_neg e, if_neg e]
      exact Denotes.congr _ _ (c.cell q hq) (Nat.le_refl _) (fun _ _ _ => rfl)
  · simp only [assignCell_tfOf, assignCell_agentOf]; exact c.tf
  · simp only [Heap.heldRef, assignCell_agentOf]
    exact Denotes.congr _ _ c.held (Nat.le_refl _) (fun _ _ _ => rfl)
  · simp only [Grid.contains_setP]; exact c.agentIn


/-! ### separation under re-arrangement of the top-level references -/

/-- the new family of chains is obtained from the old one place by place: either the chain of an old
place from some depth on, or a one-element chain of a reference that occurs nowhere in the old family -/
theorem SepC.remap {V : Option Pos → Prop} {C C' : Option Pos → Nat → Option Ref} (S : SepC V C)
    (σ : Option Pos → Option (Option Pos × Nat)) (fresh : Option Pos → Ref)
    (hσ : ∀ l, V l → match σ l with
      | some (l0, sh) => V l0 ∧ ∀ k, C' l k = C l0 (k + sh)
      | none => C' l 0 = some (fresh l) ∧ ∀ k, C' l (k + 1) = none)
    (inj : ∀ l1 l2 l0 s1 s2, V l1 → V l2 → σ l1 = some (l0, s1) → σ l2 = some (l0, s2) → l1 = l2)
    (freshNew : ∀ l l' k, V l → V l' → σ l = none → C l' k ≠ some (fresh l))
    (freshInj : ∀ l1 l2, V l1 → V l2 → σ l1 = none → σ l2 = none → fresh l1 = fresh l2 → l1 = l2) :
    SepC V C' := by
  intro l1 l2 k1 k2 r v1 v2 h1 h2
  have a1 := hσ l1 v1
  have a2 := hσ l2 v2
  cases e1 : σ l1 with
  | none =>
    rw [e1] at a1
    have hk1 : k1 = 0 := by
      cases k1 with
      | zero => rfl
      | succ k => rw [a1.2 k] at h1; cases h1
    subst hk1
    have hr : r = fresh l1 := by rw [a1.1] at h1; exact (Option.some.inj h1).symm
    cases e2 : σ l2 with
    | none =>
      rw [e2] at a2
      have hk2 : k2 = 0 := by
        cases k2 with
        | zero => rfl
        | succ k => rw [a2.2 k] at h2; cases h2
      subst hk2
      have hr2 : r = fresh l2 := by rw [a2.1] at h2; exact (Option.some.inj h2).symm
      exact ⟨freshInj l1 l2 v1 v2 e1 e2 (hr ▸ hr2), rfl⟩
    | some q =>
      obtain ⟨l0, sh⟩ := q
      rw [e2] at a2
      rw [a2.2 k2, hr] at h2
      exact absurd h2 (freshNew l1 l0 _ v1 a2.1 e1)
  | some q1 =>
    obtain ⟨l01, s1⟩ := q1
    rw [e1] at a1
    cases e2 : σ l2 with
    | none =>
      rw [e2] at a2
      have hk2 : k2 = 0 := by
        cases k2 with
        | zero => rfl
        | succ k => rw [a2.2 k] at h2; cases h2
      subst hk2
      have hr2 : r = fresh l2 := by rw [a2.1] at h2; exact (Option.some.inj h2).symm
      rw [a1.2 k1, hr2] at h1
      exact absurd h1 (freshNew l2 l01 _ v2 a1.1 e2)
    | some q2 =>
      obtain ⟨l02, s2⟩ := q2
      rw [e2] at a2
      rw [a1.2 k1] at h1
      rw [a2.2 k2] at h2
      obtain ⟨hl, hk⟩ := S l01 l02 _ _ r a1.1 a2.1 h1 h2
      subst hl
      have hl12 := inj l1 l2 l01 s1 s2 v1 v2 e1 e2
      subst hl12
      rw [e1] at e2
      have : s1 = s2 := by injection e2 with e2; injection e2
      subst this
      exact ⟨rfl, by omega⟩

/-- chains only read the `content` fields -/
theorem chainAt_content {h h' : Heap} (e : ∀ x, (h'.objOf x).content = (h.objOf x).content) (k : Nat) (r : Ref) :
    h'.chainAt k r = h.chainAt k r := by
  induction k generalizing r with
  | zero => rfl
  | succ k ih => simp only [Heap.chainAt, e, ih]

/-- the same heap state seen from a heap that differs only in nodes the state does not contain -/
theorem Core.transport {hp hp' : Heap} {s : HState} {st : State} (c : Core hp s st)
    (hn : hp.next ≤ hp'.next) (hr : hp'.rowsOf = hp.rowsOf) (hc : hp'.cellsOf = hp.cellsOf)
    (ha : hp'.agentOf = hp.agentOf) (ht : hp'.tfOf = hp.tfOf)
    (ho : ∀ x, x < hp.next → hp'.objOf x = hp.objOf x) : Core hp' s st := by
  have hcell : ∀ p, hp'.cellRef s p = hp.cellRef s p := by intro p; simp only [Heap.cellRef, hr, hc]
  refine ⟨c.hh, c.ww, c.wf, ⟨by rw [hr]; exact c.rows.rowsLen, by rw [hr]; exact c.rows.rowsNodup, ?_⟩, ?_, ?_, ?_, c.agentIn⟩
  · intro row hrow; rw [hr] at hrow; rw [hc]; exact c.rows.rowLen row hrow
  · intro p hp0
    rw [hcell]
    exact Denotes.congr _ _ (c.cell p hp0) hn (fun k x hx => ho x (Denotes.chain_lt _ _ (c.cell p hp0) k x hx))
  · rw [ha, ht]; exact c.tf
  · have : hp'.heldRef s = hp.heldRef s := by simp only [Heap.heldRef, ha]
    rw [this]
    exact Denotes.congr _ _ c.held hn (fun k x hx => ho x (Denotes.chain_lt _ _ c.held k x hx))

theorem Core.chain_lt {hp : Heap} {s : HState} {st : State} (c : Core hp s st) (l : Option Pos) (v : s.validLoc l)
    (k : Nat) (x : Ref) (hx : hp.chains s l k = some x) : x < hp.next := by
  cases l with
  | none => exact Denotes.chain_lt _ _ c.held k x hx
  | some p => exact Denotes.chain_lt _ _ (c.cell p v) k x hx

/-- … and its chains are the same -/
theorem chains_transport {hp hp' : Heap} {s : HState} {st : State} (c : Core hp s st)
    (hr : hp'.rowsOf = hp.rowsOf) (hc : hp'.cellsOf = hp.cellsOf) (ha : hp'.agentOf = hp.agentOf)
    (ho : ∀ x, x < hp.next → hp'.objOf x = hp.objOf x) (l : Option Pos) (v : s.validLoc l) (k : Nat) :
    hp'.chains s l k = hp.chains s l k := by
  have htop : hp'.top s l = hp.top s l := by
    cases l with
    | none => simp only [Heap.top, Heap.heldRef, ha]
    | some p => simp only [Heap.top, Heap.cellRef, hr, hc]
  simp only [Heap.chains, htop]
  apply chainAt_congr_on
  intro j x _ hx
  exact ho x (c.chain_lt l v j x hx)

theorem Rep.transport {hp hp' : Heap} {s : HState} {st : State} (R : Rep hp s st)
    (hn : hp.next ≤ hp'.next) (hr : hp'.rowsOf = hp.rowsOf) (hc : hp'.cellsOf = hp.cellsOf)
    (ha : hp'.agentOf = hp.agentOf) (ht : hp'.tfOf = hp.tfOf)
    (ho : ∀ x, x < hp.next → hp'.objOf x = hp.objOf x) : Rep hp' s st := by
  refine ⟨R.core.transport hn hr hc ha ht ho, ?_⟩
  intro l1 l2 k1 k2 r v1 v2 h1 h2
  rw [chains_transport R.core hr hc ha ho l1 v1 k1] at h1
  rw [chains_transport R.core hr hc ha ho l2 v2 k2] at h2
  exact R.sep l1 l2 k1 k2 r v1 v2 h1 h2

/-! ### moves and turns -/

theorem Rep.setPose {hp : Heap} {s : HState} {st : State} (R : Rep hp s st) (t : Transform)
    (hin : st.grid.contains t.pos = true) :
    Rep (hp.setTf (hp.agentOf s.agent).1 t) s { st with agent := { st.agent with pos := t.pos, o := t.o } } := by
  have c := R.core
  refine ⟨⟨c.hh, c.ww, c.wf, ⟨c.rows.rowsLen, c.rows.rowsNodup, c.rows.rowLen⟩, ?_, ?_, ?_, hin⟩, ?_⟩
  · intro p hp0
    exact Denotes.congr _ _ (c.cell p hp0) (Nat.le_refl _) (fun _ _ _ => rfl)
  · simp only [Heap.setTf, if_true]
  · exact Denotes.congr _ _ c.held (Nat.le_refl _) (fun _ _ _ => rfl)
  · intro l1 l2 k1 k2 r v1 v2 h1 h2
    have e : ∀ l k, (hp.setTf (hp.agentOf s.agent).1 t).chains s l k = hp.chains s l k := by
      intro l k
      cases l <;> exact chainAt_congr (h := hp) (h' := hp.setTf (hp.agentOf s.agent).1 t) rfl k _
    rw [e] at h1 h2
    exact R.sep l1 l2 k1 k2 r v1 v2 h1 h2

theorem moveAgent_rep {hp : Heap} {s : HState} {st : State} (R : Rep hp s st) (a : Action) :
    Rep (hMoveAgent hp s a) s (moveAgent st a) := by
  have c := R.core
  unfold hMoveAgent moveAgent
  by_cases hm : a.isMove = true
  · simp only [hm, if_true, c.pos, c.orient]
    by_cases hc : st.grid.contains (nextPos st.agent.pos st.agent.o a) = true
    · have hc' : s.contains (nextPos st.agent.pos st.agent.o a) = true := by rw [c.contains]; exact hc
      simp only [hc, hc', if_true, c.objAt _ hc']
      by_cases hb : (st.grid.at (nextPos st.agent.pos st.agent.o a)).blocksMovement = true
      · simp only [hb, if_true]; exact R
      · simp only [hb, Bool.false_eq_true, if_false]
        have := R.setPose ⟨nextPos st.agent.pos st.agent.o a, st.agent.o⟩ hc
        simp only [Heap.setPos, c.tf]
        exact this
    · have hc' : s.contains (nextPos st.agent.pos st.agent.o a) = false := by
        rw [c.contains]; simpa using hc
      simp only [hc, hc', Bool.false_eq_true, if_false]; exact R
  · simp only [hm, Bool.false_eq_true, if_false]; exact R

theorem turnAgent_rep {hp : Heap} {s : HState} {st : State} (R : Rep hp s st) (a : Action) :
    Rep (hTurnAgent hp s a) s (turnAgent st a) := by
  have c := R.core
  unfold hTurnAgent turnAgent
  cases a.turnOrient with
  | none => exact R
  | some t =>
    simp only
    have := R.setPose ⟨st.agent.pos, st.agent.o.mul t⟩ c.agentIn
    simp only [c.tf]
    exact this


/-! ### doors and boxes -/

/-- `door.state = OPEN` on the faced door: the only in-place change of an object node -/
theorem Rep.openDoor {hp : Heap} {s : HState} {st : State} (R : Rep hp s st) (front : Pos)
    (hc : s.contains front = true) (sd : DoorStatus) (col : Color) (hat : st.grid.at front = .door sd col) :
    Rep (hp.setObj (hp.cellRef s front) { hp.objOf (hp.cellRef s front) with obj := .door .open col }) s
      { st with grid := st.grid.setP front (.door .open col) } := by
  have c := R.core
  have hcg : st.grid.contains front = true := by rw [← c.contains]; exact hc
  have dfront := c.cell front hc
  rw [hat] at dfront
  have dlt := dfront.lt
  have dcontent : (hp.objOf (hp.cellRef s front)).content = none := by
    unfold Denotes at dfront; exact dfront.2.2
  -- the door's reference occurs nowhere else
  have notin : ∀ l, s.validLoc l → l ≠ some front → ∀ k x, hp.chains s l k = some x → x ≠ hp.cellRef s front := by
    intro l v hne k x hx e
    subst e
    have := R.sep l (some front) k 0 _ v hc hx rfl
    exact hne this.1
  have hcontent : ∀ x, ((hp.setObj (hp.cellRef s front) { hp.objOf (hp.cellRef s front) with obj := .door .open col }).objOf x).content
      = (hp.objOf x).content := by
    intro x
    simp only [Heap.setObj]
    split
    · rename_i e; rw [e]
    · rfl
  refine ⟨⟨by simp [c.hh], by simp [c.ww], Grid.setP_WF _ c.wf _ _, ⟨c.rows.rowsLen, c.rows.rowsNodup, c.rows.rowLen⟩,
    ?_, c.tf, ?_, by simp only [Grid.contains_setP]; exact c.agentIn⟩, ?_⟩
  · intro q hq
    show Denotes _ (hp.cellRef s q) _
    rw [Grid.at_setP _ c.wf front _ hcg q]
    by_cases e : q = front
    · subst e
      rw [if_pos rfl]
      unfold Denotes
      refine ⟨dlt, by simp [Heap.setObj], by simp [Heap.setObj, dcontent]⟩
    · rw [if_neg e]
      refine Denotes.congr (h' := hp.setObj (hp.cellRef s front) _) _ _ (c.cell q hq) (Nat.le_refl _) ?_
      intro k x hx
      have := notin (some q) hq (by intro h; injection h with h; exact e h) k x hx
      simp only [Heap.setObj, this, if_false]
  · show Denotes _ (hp.heldRef s) _
    refine Denotes.congr (h' := hp.setObj (hp.cellRef s front) _) _ _ c.held (Nat.le_refl _) ?_
    intro k x hx
    have := notin none trivial (by intro h; cases h) k x hx
    simp only [Heap.setObj, this, if_false]
  · intro l1 l2 k1 k2 r v1 v2 h1 h2
    have e : ∀ l k, (hp.setObj (hp.cellRef s front) { hp.objOf (hp.cellRef s front) with obj := .door .open col }).chains s l k
        = hp.chains s l k := by
      intro l k
      cases l <;> exact chainAt_content hcontent k _
    rw [e] at h1 h2
    exact R.sep l1 l2 k1 k2 r v1 v2 h1 h2

theorem actuateDoor_rep {hp : Heap} {s : HState} {st : State} (R : Rep hp s st) (a : Action) :
    Rep (hActuateDoor hp s a) s (actuateDoor st a) := by
  have c := R.core
  unfold hActuateDoor actuateDoor
  by_cases ha : a = .actuate
  · simp only [ha, if_true, c.front]
    by_cases hc : st.grid.contains st.agent.front = true
    · have hc' : s.contains st.agent.front = true := by rw [c.contains]; exact hc
      simp only [hc, hc', if_true, c.objAt _ hc']
      cases hat : st.grid.at st.agent.front with
      | door sd col =>
        simp only
        cases sd with
        | «open» => exact R
        | closed => exact R.openDoor _ hc' _ _ hat
        | locked =>
          simp only [c.held.obj]
          cases hh : st.agent.held with
          | key kc =>
            simp only
            by_cases hk : kc = col
            · simp only [hk, if_true]; exact R.openDoor _ hc' _ _ hat
            · simp only [hk, if_false]; exact R
          | _ => exact R
      | _ => exact R
    · have hc' : s.contains st.agent.front = false := by rw [c.contains]; simpa using hc
      simp only [hc, hc', Bool.false_eq_true, if_false]; exact R
  · simp only [ha, if_false]; exact R

/-- `grid[p] = r` for a reference taken from inside the structure: the chains are re-arranged by `σ` -/
theorem actuateBox_rep {hp : Heap} {s : HState} {st : State} (R : Rep hp s st) (a : Action) :
    Rep (hActuateBox hp s a) s (actuateBox st a) := by
  have c := R.core
  unfold hActuateBox actuateBox
  by_cases ha : a = .actuate
  · simp only [ha, if_true, c.front]
    by_cases hc : st.grid.contains st.agent.front = true
    · have hc' : s.contains st.agent.front = true := by rw [c.contains]; exact hc
      simp only [hc, hc', if_true, c.objAt _ hc']
      have dfront := c.cell _ hc'
      cases hat : st.grid.at st.agent.front with
      | box content =>
        rw [hat] at dfront
        unfold Denotes at dfront
        obtain ⟨_, _, cr, hcr, dcr⟩ := dfront
        simp only [hcr]
        refine ⟨c.assign _ hc' cr content dcr, ?_⟩
        -- separation: the faced cell now starts one level down its old chain
        apply R.sep.remap (fun l => if l = some st.agent.front then some (some st.agent.front, 1) else some (l, 0)) (fun _ => 0)
        · intro l v
          by_cases e : l = some st.agent.front
          · subst e
            simp only [if_true]
            refine ⟨hc', ?_⟩
            intro k
            simp only [Heap.chains, Heap.top, cellRef_assign c.rows _ _ hc' hc' cr, if_true]
            rw [chainAt_congr (h := hp) (h' := hp.assignCell s st.agent.front cr) rfl]
            simp only [Heap.chainAt, hcr]
          · simp only [e, if_false]
            refine ⟨v, ?_⟩
            intro k
            simp only [Heap.chains, Nat.add_zero]
            rw [chainAt_congr (h := hp) (h' := hp.assignCell s st.agent.front cr) rfl]
            congr 1
            cases l with
            | none => rfl
            | some q =>
              have hq : q ≠ st.agent.front := by intro h; exact e (by rw [h])
              simp only [Heap.top, cellRef_assign c.rows _ _ hc' v cr, hq, if_false]
        · intro l1 l2 l0 s1 s2 v1 v2 h1 h2
          by_cases e1 : l1 = some st.agent.front <;> by_cases e2 : l2 = some st.agent.front <;>
            simp only [e1, e2, if_true, if_false, Option.some.injEq, Prod.mk.injEq] at h1 h2
          · rw [e1, e2]
          · exact absurd (h2.1.trans h1.1.symm) e2
          · exact absurd (h1.1.trans h2.1.symm) e1
          · exact h1.1.trans h2.1.symm
        · intro l l' k v v' h
          by_cases e : l = some st.agent.front <;> simp [e] at h
        · intro l1 l2 v1 v2 h
          by_cases e : l1 = some st.agent.front <;> simp [e] at h
      | _ => simp only; exact R
    · have hc' : s.contains st.agent.front = false := by rw [c.contains]; simpa using hc
      simp only [hc, hc', Bool.false_eq_true, if_false]; exact R
  · simp only [ha, if_false]; exact R


/-! ### swapping two cells; the obstacle sweep -/

/-- re-arrangement without new references and without descending -/
theorem SepC.reindex {V : Option Pos → Prop} {C C' : Option Pos → Nat → Option Ref} (S : SepC V C)
    (τ : Option Pos → Option Pos) (hτ : ∀ l, V l → V (τ l) ∧ ∀ k, C' l k = C (τ l) k)
    (inj : ∀ l1 l2, V l1 → V l2 → τ l1 = τ l2 → l1 = l2) : SepC V C' := by
  apply S.remap (fun l => some (τ l, 0)) (fun _ => 0)
  · intro l v
    exact ⟨(hτ l v).1, fun k => by simpa using (hτ l v).2 k⟩
  · intro l1 l2 l0 s1 s2 v1 v2 h1 h2
    simp only [Option.some.injEq, Prod.mk.injEq] at h1 h2
    exact inj l1 l2 v1 v2 (h1.1.trans h2.1.symm)
  · intro l l' k v v' h; cases h
  · intro l1 l2 v1 v2 h; cases h

def swapLoc (p q : Pos) (l : Option Pos) : Option Pos :=
  if l = some q then some p else if l = some p then some q else l

theorem swapLoc_invol (p q : Pos) (l : Option Pos) : swapLoc p q (swapLoc p q l) = l := by
  unfold swapLoc
  by_cases a : l = some q
  · subst a
    by_cases e : p = q
    · subst e; simp
    · have e' : ¬ (some p : Option Pos) = some q := by intro h; injection h with h; exact e h
      simp [e']
  · by_cases b : l = some p
    · subst b
      simp [a]
    · simp [a, b]

theorem Rep.swap {hp : Heap} {s : HState} {st : State} (R : Rep hp s st) (p q : Pos)
    (hp0 : s.contains p = true) (hq0 : s.contains q = true) :
    Rep (hp.swapCells s p q) s { st with grid := st.grid.swap p q } := by
  have c := R.core
  unfold Heap.swapCells
  simp only
  have c1 := c.assign p hp0 (hp.cellRef s q) (st.grid.at q) (c.cell q hq0)
  have d2 : Denotes (hp.assignCell s p (hp.cellRef s q)) (hp.cellRef s p) (st.grid.at p) :=
    Denotes.congr (h' := hp.assignCell s p (hp.cellRef s q)) _ _ (c.cell p hp0) (Nat.le_refl _) (fun _ _ _ => rfl)
  have c2 := c1.assign q hq0 (hp.cellRef s p) (st.grid.at p) d2
  refine ⟨c2, ?_⟩
  -- the two places exchange their chains
  have htop : ∀ x, s.contains x = true →
      ((hp.assignCell s p (hp.cellRef s q)).assignCell s q (hp.cellRef s p)).cellRef s x =
        if x = q then hp.cellRef s p else if x = p then hp.cellRef s q else hp.cellRef s x := by
    intro x hx
    rw [cellRef_assign c1.rows q x hq0 hx, cellRef_assign c.rows p x hp0 hx]
  have hch : ∀ k r, ((hp.assignCell s p (hp.cellRef s q)).assignCell s q (hp.cellRef s p)).chainAt k r = hp.chainAt k r :=
    fun k r => chainAt_congr (h := hp) (h' := (hp.assignCell s p (hp.cellRef s q)).assignCell s q (hp.cellRef s p)) rfl k r
  apply R.sep.reindex (swapLoc p q)
  · intro l v
    unfold swapLoc
    by_cases e1 : l = some q
    · subst e1
      simp only [if_true]
      refine ⟨hp0, fun k => ?_⟩
      simp only [Heap.chains, Heap.top, htop q hq0, if_true]
      exact hch k _
    · by_cases e2 : l = some p
      · subst e2
        simp only [e1, if_false, if_true]
        refine ⟨hq0, fun k => ?_⟩
        have : p ≠ q := by intro h; exact e1 (by rw [h])
        simp only [Heap.chains, Heap.top, htop p hp0, this, if_false, if_true]
        exact hch k _
      · simp only [e1, e2, if_false]
        refine ⟨v, fun k => ?_⟩
        simp only [Heap.chains]
        cases l with
        | none => exact hch k _
        | some x =>
          have h1 : x ≠ q := by intro h; exact e1 (by rw [h])
          have h2 : x ≠ p := by intro h; exact e2 (by rw [h])
          simp only [Heap.top, htop x v, h1, h2, if_false]
          exact hch k _
  · intro l1 l2 _ _ h
    have := congrArg (swapLoc p q) h
    rwa [swapLoc_invol, swapLoc_invol] at this


theorem Core.findCells {hp : Heap} {s : HState} {st : State} (c : Core hp s st) (f : Obj → Bool) :
    hp.findCells s f = st.grid.find f := by
  unfold Heap.findCells Grid.find Grid.positions
  rw [c.hh, c.ww]
  apply List.filter_congr
  intro q hq
  have hq' : q ∈ st.grid.positions := hq
  rw [Grid.mem_positions] at hq'
  rw [c.objAt q (by rw [c.contains]; exact hq')]

theorem obstacleStep_rep {hp : Heap} {s : HState} {st : State} (R : Rep hp s st) (p : Pos)
    (hp0 : s.contains p = true) (d : DrawSt) :
    Rep (hObstacleStep s hp p d).1 s { st with grid := (obstacleStep st.grid p d).1 } ∧
      (hObstacleStep s hp p d).2 = (obstacleStep st.grid p d).2 := by
  have c := R.core
  unfold hObstacleStep obstacleStep
  have hn : ((manhattanBoundary p 1).filter fun q => s.contains q && (hp.objOf (hp.cellRef s q)).obj.isKind .floor) =
      (manhattanBoundary p 1).filter fun q => st.grid.contains q && (st.grid.at q).isKind .floor := by
    apply List.filter_congr
    intro q _
    by_cases hq : s.contains q = true
    · rw [c.objAt q hq, ← c.contains]
    · have hq' : s.contains q = false := by simpa using hq
      rw [← c.contains, hq']; simp
  simp only [hn]
  generalize hnx : ((manhattanBoundary p 1).filter fun q => st.grid.contains q && (st.grid.at q).isKind .floor) = nexts
  cases hd : drawChoice nexts.length d with
  | mk oi d' =>
    cases oi with
    | none => exact ⟨R, rfl⟩
    | some i =>
      simp only
      have hin : s.contains (nexts.getD i p) = true := by
        by_cases hi : i < nexts.length
        · have hm : nexts.getD i p ∈ nexts := by
            simp only [List.getD, List.getElem?_eq_getElem hi, Option.getD_some]; exact List.getElem_mem hi
          have hm2 : nexts.getD i p ∈ (manhattanBoundary p 1).filter fun q => st.grid.contains q && (st.grid.at q).isKind .floor := by
            rw [hnx]; exact hm
          rw [List.mem_filter] at hm2
          rw [c.contains]
          have := hm2.2
          simp only [Bool.and_eq_true] at this
          exact this.1
        · have : nexts.getD i p = p := by simp [List.getD, hi]
          rw [this]; exact hp0
      exact ⟨R.swap p _ hp0 hin, trivial⟩

theorem moveObstacles_rep {hp : Heap} {s : HState} {st : State} (R : Rep hp s st) (d : DrawSt) :
    Rep (hMoveObstacles hp s d).1 s (moveObstacles st d).1 ∧ (hMoveObstacles hp s d).2 = (moveObstacles st d).2 := by
  unfold hMoveObstacles moveObstacles
  simp only [R.core.findCells]
  have hps : ∀ q ∈ st.grid.find (fun o => o.isKind .obstacle), s.contains q = true := by
    intro q hq
    rw [Grid.mem_find] at hq
    rw [R.core.contains]; exact hq.1
  generalize st.grid.find (fun o => o.isKind .obstacle) = ps at hps
  -- fold invariant
  suffices h : ∀ (ps : List Pos) (acc1 : Heap × DrawSt) (acc2 : Grid × DrawSt),
      (∀ q ∈ ps, s.contains q = true) → Rep acc1.1 s { st with grid := acc2.1 } → acc1.2 = acc2.2 →
      Rep (ps.foldl (fun (acc : Heap × DrawSt) p => hObstacleStep s acc.1 p acc.2) acc1).1 s
        { st with grid := (ps.foldl (fun (acc : Grid × DrawSt) p => obstacleStep acc.1 p acc.2) acc2).1 } ∧
      (ps.foldl (fun (acc : Heap × DrawSt) p => hObstacleStep s acc.1 p acc.2) acc1).2 =
        (ps.foldl (fun (acc : Grid × DrawSt) p => obstacleStep acc.1 p acc.2) acc2).2 by
    exact h ps (hp, d) (st.grid, d) hps R rfl
  intro ps
  induction ps with
  | nil => intro acc1 acc2 _ R1 hd; exact ⟨R1, hd⟩
  | cons p rest ih =>
    intro acc1 acc2 hin R1 hd
    simp only [List.foldl_cons]
    obtain ⟨R2, hd2⟩ := obstacleStep_rep R1 p (hin p List.mem_cons_self) acc1.2
    simp only at R2 hd2
    rw [hd] at R2 hd2
    rw [hd]
    exact ih _ _ (fun q hq => hin q (List.mem_cons_of_mem _ hq)) R2 hd2

/-! ### teleport -/

theorem teleport_rep {hp : Heap} {s : HState} {st : State} (R : Rep hp s st) (d : DrawSt) :
    ∃ st' d', teleport st d = .ok (st', d') ∧ Rep (hTeleport hp s d).1 s st' ∧ (hTeleport hp s d).2 = d' := by
  have c := R.core
  have hin : s.contains st.agent.pos = true := by rw [c.contains]; exact c.agentIn
  unfold hTeleport teleport
  simp only [Grid.pyGet_of_contains _ c.wf _ c.agentIn, c.pos, c.objAt _ hin]
  by_cases ht : (st.grid.at st.agent.pos).isKind .telepod = true
  · simp only [ht, if_true]
    have hps : ((hp.findCells s fun o => o.isKind .telepod && o.color == (st.grid.at st.agent.pos).color).filter
        fun q => q != st.agent.pos) = teleportTargets st (st.grid.at st.agent.pos).color := by
      rw [c.findCells]
      unfold teleportTargets Grid.find
      rw [List.filter_filter]
      apply List.filter_congr
      intro q _
      simp only [Bool.and_assoc]
    simp only [hps]
    generalize hg : teleportTargets st (st.grid.at st.agent.pos).color = ps
    by_cases he : ps.isEmpty = true
    · simp only [he, if_true]; exact ⟨_, _, rfl, R, rfl⟩
    · simp only [he, Bool.false_eq_true, if_false]
      cases hd : drawChoice ps.length d with
      | mk oi d' =>
        cases oi with
        | none => exact ⟨_, _, rfl, R, rfl⟩
        | some i =>
          simp only
          refine ⟨_, _, rfl, ?_, rfl⟩
          have hin2 : st.grid.contains (ps.getD i st.agent.pos) = true := by
            by_cases hi : i < ps.length
            · have hm : ps.getD i st.agent.pos ∈ ps := by
                simp only [List.getD, List.getElem?_eq_getElem hi, Option.getD_some]; exact List.getElem_mem hi
              have hm2 : ps.getD i st.agent.pos ∈ teleportTargets st (st.grid.at st.agent.pos).color := by
                rw [hg]; exact hm
              unfold teleportTargets at hm2
              rw [List.mem_filter, Grid.mem_positions] at hm2
              exact hm2.1
            · have : ps.getD i st.agent.pos = st.agent.pos := by simp [List.getD, hi]
              rw [this]; exact c.agentIn
          have := R.setPose ⟨ps.getD i st.agent.pos, st.agent.o⟩ hin2
          simp only [Heap.setPos, c.tf]
          exact this
  · simp only [ht, Bool.false_eq_true, if_false]; exact ⟨_, _, rfl, R, rfl⟩


/-! ### pick and drop -/

theorem Core.setHeld {hp : Heap} {s : HState} {st : State} (c : Core hp s st) (r : Ref) (o : Obj) (d : Denotes hp r o) :
    Core (hp.setAgent s.agent ((hp.agentOf s.agent).1, r)) s { st with agent := { st.agent with held := o } } := by
  refine ⟨c.hh, c.ww, c.wf, ⟨c.rows.rowsLen, c.rows.rowsNodup, c.rows.rowLen⟩, ?_, ?_, ?_, c.agentIn⟩
  · intro p hp0
    exact Denotes.congr (h' := hp.setAgent s.agent _) _ _ (c.cell p hp0) (Nat.le_refl _) (fun _ _ _ => rfl)
  · simp only [Heap.setAgent, if_true]; exact c.tf
  · simp only [Heap.heldRef, Heap.setAgent, if_true]
    exact Denotes.congr (h' := hp.setAgent s.agent _) _ _ d (Nat.le_refl _) (fun _ _ _ => rfl)

/-- where a reference put into the faced cell / the hand comes from: one of the two places being
overwritten, or a newly made object -/
def SrcOK (hp : Heap) (s : HState) (front : Pos) (r : Ref) : Option (Option Pos) → Prop
  | some l => (l = some front ∨ l = none) ∧ r = hp.top s l
  | none => (hp.objOf r).content = none ∧ ∀ l k, s.validLoc l → hp.chains s l k ≠ some r

/-- `grid[front] = rc; agent.grid_object = rh` -/
theorem Rep.placeBoth {hp : Heap} {s : HState} {st : State} (R : Rep hp s st) (front : Pos)
    (hc : s.contains front = true) (rc rh : Ref) (oc oh : Obj) (dc : Denotes hp rc oc) (dh : Denotes hp rh oh)
    (srcC srcH : Option (Option Pos)) (hC : SrcOK hp s front rc srcC) (hH : SrcOK hp s front rh srcH)
    (hne : ∀ l, srcC = some l → srcH = some l → False) (hfresh : srcC = none → srcH = none → rc ≠ rh) :
    Rep ((hp.assignCell s front rc).setAgent s.agent (((hp.assignCell s front rc).agentOf s.agent).1, rh)) s
      { grid := st.grid.setP front oc, agent := { st.agent with held := oh } } := by
  have c := R.core
  have c1 := c.assign front hc rc oc dc
  have dh1 : Denotes (hp.assignCell s front rc) rh oh :=
    Denotes.congr (h' := hp.assignCell s front rc) _ _ dh (Nat.le_refl _) (fun _ _ _ => rfl)
  have c2 := c1.setHeld rh oh dh1
  refine ⟨c2, ?_⟩
  generalize hfin : (hp.assignCell s front rc).setAgent s.agent (((hp.assignCell s front rc).agentOf s.agent).1, rh) = hpf
  have hch : ∀ k r, hpf.chainAt k r = hp.chainAt k r := by
    intro k r; rw [← hfin]
    exact chainAt_congr (h := hp) (h' := (hp.assignCell s front rc).setAgent s.agent _) rfl k r
  have hobj : hpf.objOf = hp.objOf := by rw [← hfin]; rfl
  have htopF : hpf.top s (some front) = rc := by
    rw [← hfin]
    show (hp.assignCell s front rc).cellRef s front = rc
    rw [cellRef_assign c.rows front front hc hc, if_pos rfl]
  have htopN : hpf.top s none = rh := by
    rw [← hfin]; simp [Heap.top, Heap.heldRef, Heap.setAgent]
  have htopO : ∀ q, s.contains q = true → q ≠ front → hpf.top s (some q) = hp.top s (some q) := by
    intro q hq hne'
    rw [← hfin]
    show (hp.assignCell s front rc).cellRef s q = hp.cellRef s q
    rw [cellRef_assign c.rows front q hc hq, if_neg hne']
  let σ : Option Pos → Option (Option Pos × Nat) := fun l =>
    if l = some front then srcC.map (fun l0 => (l0, 0)) else if l = none then srcH.map (fun l0 => (l0, 0)) else some (l, 0)
  let fr : Option Pos → Ref := fun l => if l = some front then rc else rh
  have vsrc : ∀ (r : Ref) (src : Option (Option Pos)) (l0 : Option Pos), SrcOK hp s front r src → src = some l0 →
      s.validLoc l0 ∧ r = hp.top s l0 ∧ (l0 = some front ∨ l0 = none) := by
    intro r src l0 h e
    subst e
    obtain ⟨h1, h2⟩ := h
    refine ⟨?_, h2, h1⟩
    rcases h1 with rfl | rfl
    · exact hc
    · trivial
  apply R.sep.remap σ fr
  · intro l v
    by_cases e1 : l = some front
    · subst e1
      simp only [σ, if_true]
      cases hs : srcC with
      | none =>
        rw [hs] at hC
        simp only [Option.map_none]
        refine ⟨by simp only [Heap.chains, htopF, hch, Heap.chainAt, fr, if_true], ?_⟩
        intro k
        simp only [Heap.chains, htopF, Heap.chainAt, hobj, hC.1]
      | some l0 =>
        obtain ⟨v0, hr0, _⟩ := vsrc rc srcC l0 hC hs
        simp only [Option.map_some]
        refine ⟨v0, fun k => ?_⟩
        simp only [Heap.chains, htopF, hch, hr0, Nat.add_zero]
    · by_cases e2 : l = none
      · subst e2
        simp only [σ, e1, if_false, if_true]
        cases hs : srcH with
        | none =>
          rw [hs] at hH
          simp only [Option.map_none]
          have : fr none = rh := by simp [fr]
          refine ⟨by simp only [Heap.chains, htopN, hch, Heap.chainAt, this], ?_⟩
          intro k
          simp only [Heap.chains, htopN, Heap.chainAt, hobj, hH.1]
        | some l0 =>
          obtain ⟨v0, hr0, _⟩ := vsrc rh srcH l0 hH hs
          simp only [Option.map_some]
          refine ⟨v0, fun k => ?_⟩
          simp only [Heap.chains, htopN, hch, hr0, Nat.add_zero]
      · simp only [σ, e1, e2, if_false]
        refine ⟨v, fun k => ?_⟩
        cases l with
        | none => exact absurd rfl e2
        | some q =>
          have hq : q ≠ front := by intro h; exact e1 (by rw [h])
          simp only [Heap.chains, htopO q v hq, hch, Nat.add_zero]
  · -- no place is used twice
    intro l1 l2 l0 s1 s2 v1 v2 h1 h2
    have key : ∀ l s0, σ l = some (l0, s0) →
        (l = some front ∧ srcC = some l0) ∨ (l = none ∧ srcH = some l0) ∨ (l ≠ some front ∧ l ≠ none ∧ l = l0) := by
      intro l s0 h
      by_cases e1 : l = some front
      · left
        have h' : srcC.map (fun l0 => (l0, 0)) = some (l0, s0) := by
          have : σ l = srcC.map (fun l0 => (l0, 0)) := if_pos e1
          rw [← this]; exact h
        cases hs : srcC with
        | none => rw [hs] at h'; cases h'
        | some x =>
          rw [hs] at h'
          simp only [Option.map_some, Option.some.injEq, Prod.mk.injEq] at h'
          exact ⟨e1, by rw [h'.1]⟩
      · by_cases e2 : l = none
        · right; left
          have h' : srcH.map (fun l0 => (l0, 0)) = some (l0, s0) := by
            have : σ l = srcH.map (fun l0 => (l0, 0)) := by
              show (if l = some front then _ else if l = none then _ else _) = _
              rw [if_neg e1, if_pos e2]
            rw [← this]; exact h
          cases hs : srcH with
          | none => rw [hs] at h'; cases h'
          | some x =>
            rw [hs] at h'
            simp only [Option.map_some, Option.some.injEq, Prod.mk.injEq] at h'
            exact ⟨e2, by rw [h'.1]⟩
        · right; right
          have h' : some (l, 0) = some (l0, s0) := by
            have : σ l = some (l, 0) := by
              show (if l = some front then _ else if l = none then _ else _) = _
              rw [if_neg e1, if_neg e2]
            rw [← this]; exact h
          simp only [Option.some.injEq, Prod.mk.injEq] at h'
          exact ⟨e1, e2, h'.1⟩
    rcases key l1 s1 h1 with ⟨a1, b1⟩ | ⟨a1, b1⟩ | ⟨a1, a1', b1⟩ <;>
      rcases key l2 s2 h2 with ⟨a2, b2⟩ | ⟨a2, b2⟩ | ⟨a2, a2', b2⟩
    · rw [a1, a2]
    · exact absurd b2 (fun h => hne l0 b1 h)
    · obtain ⟨_, _, hl0⟩ := vsrc rc srcC l0 hC b1
      rw [← b2] at hl0
      rcases hl0 with h | h
      · exact absurd h a2
      · exact absurd h a2'
    · exact absurd b1 (fun h => hne l0 b2 h)
    · rw [a1, a2]
    · obtain ⟨_, _, hl0⟩ := vsrc rh srcH l0 hH b1
      rw [← b2] at hl0
      rcases hl0 with h | h
      · exact absurd h a2
      · exact absurd h a2'
    · obtain ⟨_, _, hl0⟩ := vsrc rc srcC l0 hC b2
      rw [← b1] at hl0
      rcases hl0 with h | h
      · exact absurd h a1
      · exact absurd h a1'
    · obtain ⟨_, _, hl0⟩ := vsrc rh srcH l0 hH b2
      rw [← b1] at hl0
      rcases hl0 with h | h
      · exact absurd h a1
      · exact absurd h a1'
    · rw [b1, b2]
  · -- a new object occurs in no old chain
    intro l l' k v v' h
    by_cases e1 : l = some front
    · have h' : srcC.map (fun l0 => (l0, 0)) = none := by
        have : σ l = srcC.map (fun l0 => (l0, 0)) := if_pos e1
        rw [← this]; exact h
      cases hs : srcC with
      | none =>
        rw [hs] at hC
        have : fr l = rc := if_pos e1
        rw [this]; exact hC.2 l' k v'
      | some x => rw [hs] at h'; cases h'
    · by_cases e2 : l = none
      · have h' : srcH.map (fun l0 => (l0, 0)) = none := by
          have : σ l = srcH.map (fun l0 => (l0, 0)) := by
            show (if l = some front then _ else if l = none then _ else _) = _
            rw [if_neg e1, if_pos e2]
          rw [← this]; exact h
        cases hs : srcH with
        | none =>
          rw [hs] at hH
          have : fr l = rh := if_neg e1
          rw [this]; exact hH.2 l' k v'
        | some x => rw [hs] at h'; cases h'
      · have : σ l = some (l, 0) := by
          show (if l = some front then _ else if l = none then _ else _) = _
          rw [if_neg e1, if_neg e2]
        rw [this] at h; cases h
  · -- two new objects are different objects
    intro l1 l2 v1 v2 h1 h2 hf
    have key : ∀ l, σ l = none → (l = some front ∧ srcC = none) ∨ (l = none ∧ srcH = none) := by
      intro l h
      by_cases e1 : l = some front
      · left
        have h' : srcC.map (fun l0 => (l0, 0)) = none := by
          have : σ l = srcC.map (fun l0 => (l0, 0)) := if_pos e1
          rw [← this]; exact h
        cases hs : srcC with
        | none => exact ⟨e1, rfl⟩
        | some x => rw [hs] at h'; cases h'
      · by_cases e2 : l = none
        · right
          have h' : srcH.map (fun l0 => (l0, 0)) = none := by
            have : σ l = srcH.map (fun l0 => (l0, 0)) := by
              show (if l = some front then _ else if l = none then _ else _) = _
              rw [if_neg e1, if_pos e2]
            rw [← this]; exact h
          cases hs : srcH with
          | none => exact ⟨e2, rfl⟩
          | some x => rw [hs] at h'; cases h'
        · have : σ l = some (l, 0) := by
            show (if l = some front then _ else if l = none then _ else _) = _
            rw [if_neg e1, if_neg e2]
          rw [this] at h; cases h
    rcases key l1 h1 with ⟨a1, b1⟩ | ⟨a1, b1⟩ <;> rcases key l2 h2 with ⟨a2, b2⟩ | ⟨a2, b2⟩
    · rw [a1, a2]
    · subst a1; subst a2
      simp only [fr, if_true] at hf
      exact absurd (by simpa using hf) (hfresh b1 b2)
    · subst a1; subst a2
      simp only [fr, if_true] at hf
      exact absurd (by simpa using hf.symm) (hfresh b2 b1)
    · rw [a1, a2]


theorem newObj_objOf_lt (h : Heap) (o : HObj) (x : Ref) (hx : x < h.next) : (h.newObj o).2.objOf x = h.objOf x := by
  simp only [Heap.newObj]
  rw [if_neg (Nat.ne_of_lt hx)]

theorem newObj_assign_comm (hp : Heap) (s : HState) (p : Pos) (r : Ref) (o : HObj) :
    (hp.assignCell s p r).newObj o = (hp.next, (hp.newObj o).2.assignCell s p r) := rfl

/-- a newly made leaf object: allocated, denotes its value, occurs nowhere in the state -/
theorem Rep.newLeaf {hp : Heap} {s : HState} {st : State} (R : Rep hp s st) (o : Obj)
    (hleaf : ∀ c, o ≠ .box c) (front : Pos) :
    Rep (hp.newObj ⟨o, none⟩).2 s st ∧ Denotes (hp.newObj ⟨o, none⟩).2 hp.next o ∧
      SrcOK (hp.newObj ⟨o, none⟩).2 s front hp.next none := by
  have hobj : ∀ x, x < hp.next → (hp.newObj ⟨o, none⟩).2.objOf x = hp.objOf x :=
    fun x hx => newObj_objOf_lt hp _ x hx
  have R' : Rep (hp.newObj ⟨o, none⟩).2 s st := R.transport (Nat.le_succ _) rfl rfl rfl rfl hobj
  refine ⟨R', ?_, ?_, ?_⟩
  · unfold Denotes
    cases o with
    | box c => exact absurd rfl (hleaf c)
    | _ => simp [Heap.newObj]
  · simp [Heap.newObj]
  · intro l k v h
    have := R'.core.chain_lt l v k _ h
    rw [chains_transport (hp' := (hp.newObj ⟨o, none⟩).2) R.core rfl rfl rfl hobj l v k] at h
    have := R.core.chain_lt l v k _ h
    exact Nat.lt_irrefl _ this

theorem pickndrop_rep {hp : Heap} {s : HState} {st : State} (R : Rep hp s st) (a : Action) :
    Rep (hPickndrop hp s a) s (pickndrop st a) := by
  have c := R.core
  unfold hPickndrop pickndrop
  by_cases ha : a = .pickNDrop
  · simp only [ha, if_true, c.front]
    by_cases hc : st.grid.contains st.agent.front = true
    · have hc' : s.contains st.agent.front = true := by rw [c.contains]; exact hc
      simp only [hc, hc', if_true, c.objAt _ hc']
      by_cases hdrop : ((st.grid.at st.agent.front).isKind .floor || (st.grid.at st.agent.front).holdable) = true
      · simp only [hdrop, if_true, c.held.obj]
        by_cases hnone : st.agent.held.isKind .noneObj = true
        · -- empty hand: a new Floor() goes on the cell
          simp only [hnone, if_true]
          obtain ⟨R1, dF, sF⟩ := R.newLeaf .floor (by intro c h; cases h) st.agent.front
          have c1 := R1.core
          have hcell1 : (hp.newObj ⟨.floor, none⟩).2.cellRef s st.agent.front = hp.cellRef s st.agent.front := rfl
          by_cases hhold : (st.grid.at st.agent.front).holdable = true
          · -- pick: the object in front goes to the hand
            simp only [hhold, if_true]
            have := R1.placeBoth st.agent.front hc' hp.next (hp.cellRef s st.agent.front) .floor (st.grid.at st.agent.front)
              dF (c1.cell _ hc') none (some (some st.agent.front)) sF ⟨Or.inl rfl, rfl⟩
              (by intro l h; cases h) (by intro _ h; cases h)
            exact this
          · -- nothing to pick: a new NoneGridObject() in the hand
            simp only [hhold, Bool.false_eq_true, if_false, newObj_assign_comm]
            obtain ⟨R2, dN, sN⟩ := R1.newLeaf .noneObj (by intro c h; cases h) st.agent.front
            have dF2 : Denotes ((hp.newObj ⟨.floor, none⟩).2.newObj ⟨.noneObj, none⟩).2 hp.next .floor :=
              Denotes.stable (ext_newObj _ _) _ _ dF
            have sF2 : SrcOK ((hp.newObj ⟨.floor, none⟩).2.newObj ⟨.noneObj, none⟩).2 s st.agent.front hp.next none := by
              refine ⟨by simp [Heap.newObj], ?_⟩
              intro l k v h
              have hobj : ∀ x, x < (hp.newObj ⟨.floor, none⟩).2.next →
                  ((hp.newObj ⟨.floor, none⟩).2.newObj ⟨.noneObj, none⟩).2.objOf x = (hp.newObj ⟨.floor, none⟩).2.objOf x :=
                fun x hx => newObj_objOf_lt _ _ x hx
              rw [chains_transport (hp' := ((hp.newObj ⟨.floor, none⟩).2.newObj ⟨.noneObj, none⟩).2) R1.core rfl rfl rfl hobj l v k] at h
              exact sF.2 l k v h
            have := R2.placeBoth st.agent.front hc' hp.next (hp.next + 1) .floor .noneObj dF2 dN none none sF2 sN
              (by intro l h; cases h) (by intro _ _ h; exact absurd h (Nat.ne_of_lt (Nat.lt_succ_self _)))
            exact this
        · -- the held object goes on the cell
          simp only [hnone, Bool.false_eq_true, if_false]
          by_cases hhold : (st.grid.at st.agent.front).holdable = true
          · -- swap hand and cell
            simp only [hhold, if_true]
            have := R.placeBoth st.agent.front hc' (hp.heldRef s) (hp.cellRef s st.agent.front) st.agent.held
              (st.grid.at st.agent.front) c.held (c.cell _ hc') (some none) (some (some st.agent.front))
              ⟨Or.inr rfl, rfl⟩ ⟨Or.inl rfl, rfl⟩
              (by intro l h1 h2; cases h1; cases h2) (by intro h; cases h)
            exact this
          · -- drop: a new NoneGridObject() in the hand
            simp only [hhold, Bool.false_eq_true, if_false, newObj_assign_comm]
            obtain ⟨R2, dN, sN⟩ := R.newLeaf .noneObj (by intro c h; cases h) st.agent.front
            have dH2 : Denotes (hp.newObj ⟨.noneObj, none⟩).2 (hp.heldRef s) st.agent.held :=
              Denotes.stable (ext_newObj _ _) _ _ c.held
            have := R2.placeBoth st.agent.front hc' (hp.heldRef s) hp.next st.agent.held .noneObj dH2 dN
              (some none) none ⟨Or.inr rfl, rfl⟩ sN (by intro l _ h; cases h) (by intro h; cases h)
            exact this
      · simp only [hdrop, Bool.false_eq_true, if_false]; exact R
    · have hc' : s.contains st.agent.front = false := by rw [c.contains]; simpa using hc
      simp only [hc, hc', Bool.false_eq_true, if_false]; exact R
  · simp only [ha, if_false]; exact R


/-! ### atoms, chains, and back to values -/

theorem atom_rep {hp : Heap} {s : HState} {st : State} (R : Rep hp s st) (f : TransAtom) (a : Action) (d : DrawSt) :
    ∃ st' d', f.run st a d = .ok (st', d') ∧ Rep (hRunAtom f hp s a d).1 s st' ∧ (hRunAtom f hp s a d).2 = d' := by
  cases f with
  | moveAgent => exact ⟨_, _, rfl, moveAgent_rep R a, rfl⟩
  | turnAgent => exact ⟨_, _, rfl, turnAgent_rep R a, rfl⟩
  | pickndrop => exact ⟨_, _, rfl, pickndrop_rep R a, rfl⟩
  | moveObstacles =>
    obtain ⟨h1, h2⟩ := moveObstacles_rep R d
    exact ⟨_, _, rfl, h1, h2⟩
  | actuateDoor => exact ⟨_, _, rfl, actuateDoor_rep R a, rfl⟩
  | actuateBox => exact ⟨_, _, rfl, actuateBox_rep R a, rfl⟩
  | teleport =>
    obtain ⟨st', d', h0, h1, h2⟩ := teleport_rep R d
    exact ⟨st', d', h0, h1, h2⟩

theorem chain_rep (fs : List TransAtom) {hp : Heap} {s : HState} {st : State} (R : Rep hp s st) (a : Action) (d : DrawSt) :
    ∃ st' d', runChain fs st a d = .ok (st', d') ∧ Rep (hRunChain fs hp s a d).1 s st' ∧ (hRunChain fs hp s a d).2 = d' := by
  induction fs generalizing hp st d with
  | nil => exact ⟨st, d, rfl, R, rfl⟩
  | cons f fs ih =>
    obtain ⟨st1, d1, e1, R1, hd1⟩ := atom_rep R f a d
    obtain ⟨st2, d2, e2, R2, hd2⟩ := ih R1 d1
    refine ⟨st2, d2, ?_, ?_, ?_⟩
    · simp only [runChain, e1, e2]
    · simp only [hRunChain, hd1]; exact R2
    · simp only [hRunChain, hd1]; exact hd2

/-- a separated representation denotes its value -/
theorem Core.abs {hp : Heap} {s : HState} {st : State} (c : Core hp s st) : hp.abs s = st := by
  have hgrid : hp.absGrid s = st.grid := by
    obtain ⟨wl, wr⟩ := c.wf
    unfold Heap.absGrid
    have hcells : (hp.rowsOf s.outer).map (fun row => (hp.cellsOf row).map (hp.absObj boxFuel)) = st.grid.cells := by
      apply List.ext_getElem
      · simp [c.rows.rowsLen, c.hh, wl]
      · intro i h1 h2
        simp only [List.getElem_map]
        have hi : i < (hp.rowsOf s.outer).length := by simpa using h1
        have hrow := c.rows.rowLen _ (List.getElem_mem hi)
        have hrl := wr _ (List.getElem_mem h2)
        apply List.ext_getElem
        · simp [hrow, c.ww, hrl]
        · intro j g1 g2
          simp only [List.getElem_map]
          have hj : j < (hp.cellsOf (hp.rowsOf s.outer)[i]).length := by simpa using g1
          have hin : s.contains ⟨(i : Int), (j : Int)⟩ = true := by
            rw [HState.contains_iff]
            simp only
            rw [c.rows.rowsLen] at hi
            rw [hrow] at hj
            omega
          have d := c.cell _ hin
          have e1 : hp.cellRef s ⟨(i : Int), (j : Int)⟩ = (hp.cellsOf (hp.rowsOf s.outer)[i])[j] := by
            simp [Heap.cellRef, List.getD, hi, hj]
          have e2 : st.grid.at ⟨(i : Int), (j : Int)⟩ = st.grid.cells[i][j] := by
            have hcg : st.grid.contains ⟨(i : Int), (j : Int)⟩ = true := by rw [← c.contains]; exact hin
            rw [Grid.at_of_contains _ _ hcg]
            simp [Grid.cell, h2, g2]
          rw [e1, e2] at d
          exact Denotes.abs _ _ d boxFuel
    rw [hcells, c.hh, c.ww]
  have hagent : hp.absAgent s = st.agent := by
    unfold Heap.absAgent
    have := Denotes.abs _ _ c.held boxFuel
    simp only [Heap.heldRef] at this
    simp only [c.tf, this]
  unfold Heap.abs
  rw [hgrid, hagent]

end GV
