/-
  Certificate checking for the shipped `dynamic_obstacles` tasks (definitions only; depends on the
  model alone so that the expensive kernel re-checks never need rebuilding when a generated table
  changes).
-/
import GridVerse.Model.Win
import GridVerse.Model.Reset
namespace GV

/-- the shipped dynamics and termination of the `dynamic_obstacles` tasks -/
def obsChain : List TransAtom := [.moveAgent, .turnAgent, .moveObstacles]
def obsStop : State → Action → State → Bool := stopOf (.any [.reachExit, .bumpObstacle, .bumpWall])

/-- the second half of `resetDynamicObstacles`: the state built from the picked indices -/
def obstacleState (s0 : State) (idx : List Nat) : Except PyErr State :=
  match drawAll s0.grid
      (idx.map fun i => ((floorPositions s0.grid).filter fun p => p != s0.agent.pos).getD i ⟨0, 0⟩) .obstacle with
  | .error e => .error e
  | .ok g => .ok { s0 with grid := g }

/-- a table row is a winning certificate for the layout it names -/
def certOK (s0 : State) (row : List Nat × (List Action × List Nat)) : Bool :=
  match obstacleState s0 row.1 with
  | .ok s => checkPlan obsChain obsStop goalExit s row.2.1 ⟨row.2.2, []⟩
  | .error _ => false

/-- the empty room the obstacles are put in (no draw is consumed when the agent is fixed) -/
def room (sh : Shape) : State :=
  match resetEmpty sh false false ⟨[], []⟩ with
  | .ok (s, _) => s
  | .error _ => default

end GV
