/-
  The flood fill of `partially_occluded` and the ray marking of `raytracing`.
-/
import GridVerse.Model.Visibility
set_option linter.unusedSimpArgs false
namespace GV

theorem foldl_mono {f : List Pos → Pos → List Pos} (hf : ∀ v p, v ⊆ f v p) (l : List Pos) (v : List Pos) :
    v ⊆ l.foldl f v := by
  induction l generalizing v with
  | nil => simp
  | cons a l ih => exact fun x hx => ih _ (hf _ _ hx)

theorem mkVis_mono (opq inGrid next) (fuel : Nat) (vis : List Pos) (p : Pos) :
    vis ⊆ mkVis opq inGrid next fuel vis p := by
  induction fuel generalizing vis p with
  | zero => simp [mkVis]
  | succ n ih =>
    unfold mkVis
    split
    · split
      · intro x hx
        exact foldl_mono (fun v q => ih v q) _ _ (List.mem_cons_of_mem _ hx)
      · intro x hx; exact List.mem_cons_of_mem _ hx
    · simp

/-- Non-interference: if the two opacity maps agree on every cell the run finally marks, the two
runs are identical. -/
theorem mkVis_noninterf (opq opq' inGrid next) (fuel : Nat) (vis : List Pos) (p : Pos)
    (h : ∀ q ∈ mkVis opq inGrid next fuel vis p, opq q = opq' q) :
    mkVis opq' inGrid next fuel vis p = mkVis opq inGrid next fuel vis p := by
  induction fuel generalizing vis p with
  | zero => simp [mkVis]
  | succ n ih =>
    unfold mkVis at h ⊢
    split
    · rename_i hc
      simp only [hc, if_true] at h
      by_cases ho : opq p = true
      · have hp : opq' p = true := by
          have := h p (by simp [ho])
          rw [← this]; exact ho
        simp [ho, hp]
      · have ho' : opq p = false := by simpa using ho
        simp only [ho', Bool.not_false, if_true] at h
        have hp : opq' p = false := by
          have := h p (foldl_mono (fun v q => mkVis_mono opq inGrid next n v q) _ _ (by simp))
          rw [← this]; exact ho'
        simp only [ho', hp, Bool.not_false, if_true]
        generalize hv : (p :: vis) = v0 at h ⊢
        clear hv
        generalize next p = l at h ⊢
        induction l generalizing v0 with
        | nil => rfl
        | cons a l ihl =>
          simp only [List.foldl_cons] at h ⊢
          have h1 : mkVis opq' inGrid next n v0 a = mkVis opq inGrid next n v0 a :=
            ih v0 a (fun q hq => h q (foldl_mono (fun v q => mkVis_mono opq inGrid next n v q) l _ hq))
          rw [h1]
          exact ihl _ h
    · rfl

/-- every marked cell is inside the grid (given that the already-marked ones are) -/
theorem mkVis_inGrid (opq inGrid next) (fuel : Nat) (vis : List Pos) (p : Pos)
    (hv : ∀ q ∈ vis, inGrid q = true) : ∀ q ∈ mkVis opq inGrid next fuel vis p, inGrid q = true := by
  induction fuel generalizing vis p with
  | zero => simpa [mkVis] using hv
  | succ n ih =>
    unfold mkVis
    split
    · rename_i hc
      simp only [Bool.and_eq_true] at hc
      have hv' : ∀ q ∈ p :: vis, inGrid q = true := by
        intro q hq
        rcases List.mem_cons.mp hq with rfl | hq
        · exact hc.1
        · exact hv q hq
      split
      · generalize (p :: vis) = v0 at hv'
        generalize next p = l
        induction l generalizing v0 with
        | nil => exact hv'
        | cons a l ihl => exact ihl _ (ih v0 a hv')
      · exact hv'
    · exact hv

/-- the start cell is marked -/
theorem mkVis_self (opq inGrid next) (fuel : Nat) (p : Pos) (hp : inGrid p = true) :
    p ∈ mkVis opq inGrid next (fuel + 1) [] p := by
  unfold mkVis
  simp only [hp, List.contains_nil, Bool.not_false, Bool.and_self, if_true]
  split
  · exact foldl_mono (fun v q => mkVis_mono opq inGrid next fuel v q) _ _ (by simp)
  · simp

/-- "linked to the origin": the origin itself, or reached through `next` from a linked,
transparent, marked cell -/
inductive Linked (opq : Pos → Bool) (next : Pos → List Pos) (origin : Pos) (marked : List Pos) : Pos → Prop
  | origin : Linked opq next origin marked origin
  | step (parent q : Pos) : Linked opq next origin marked parent → parent ∈ marked → opq parent = false →
      q ∈ next parent → Linked opq next origin marked q

theorem Linked.mono {opq next origin} {m m' : List Pos} (hm : m ⊆ m') {q : Pos}
    (h : Linked opq next origin m q) : Linked opq next origin m' q := by
  induction h with
  | origin => exact Linked.origin
  | step parent q _ hp ho hq ih => exact Linked.step parent q ih (hm hp) ho hq

/-- every cell the flood marks is linked to the origin through marked transparent cells -/
theorem mkVis_linked (opq inGrid next) (origin : Pos) (fuel : Nat) (vis : List Pos) (p : Pos)
    (final : List Pos) (hfin : mkVis opq inGrid next fuel vis p ⊆ final)
    (hp : Linked opq next origin final p)
    (hv : ∀ q ∈ vis, Linked opq next origin final q) :
    ∀ q ∈ mkVis opq inGrid next fuel vis p, Linked opq next origin final q := by
  induction fuel generalizing vis p with
  | zero => simpa [mkVis] using hv
  | succ n ih =>
    unfold mkVis at hfin ⊢
    split
    · rename_i hc
      simp only [hc, if_true] at hfin
      have hv' : ∀ q ∈ p :: vis, Linked opq next origin final q := by
        intro q hq
        rcases List.mem_cons.mp hq with rfl | hq
        · exact hp
        · exact hv q hq
      split
      · rename_i ho
        simp only [ho, if_true] at hfin
        have ho' : opq p = false := by simpa using ho
        have hpm : p ∈ final :=
          hfin (foldl_mono (fun v q => mkVis_mono opq inGrid next n v q) _ _ (by simp))
        have hchild : ∀ c ∈ next p, Linked opq next origin final c :=
          fun c hc' => Linked.step p c hp hpm ho' hc'
        generalize (p :: vis) = v0 at hv' hfin
        generalize next p = l at hchild hfin
        induction l generalizing v0 with
        | nil => exact hv'
        | cons a l ihl =>
          simp only [List.foldl_cons] at hfin ⊢
          refine ihl _ ?_ (fun c hc' => hchild c (by simp [hc'])) hfin
          exact ih v0 a
            (fun x hx => hfin (foldl_mono (fun v q => mkVis_mono opq inGrid next n v q) l _ hx))
            (hchild a (by simp)) hv'
      · exact hv'
    · exact hv

/-! ### rays -/

/-- cells a ray reaches lit -/
def litCells (g : Grid) (light : Bool) (r : Ray) : List Pos :=
  ((rayMarks g light r).filter fun m => m.2).map fun m => m.1

theorem mem_litCells (g : Grid) (light : Bool) (r : Ray) (q : Pos) :
    q ∈ litCells g light r ↔ (q, true) ∈ rayMarks g light r := by
  simp [litCells]

/-- if the cell `c` is never reached lit by this ray, changing what `c` holds does not change the
ray's marks -/
theorem rayMarks_noninterf (g g' : Grid) (c : Pos)
    (hag : ∀ q, q ≠ c → (g'.at q).blocksVision = (g.at q).blocksVision)
    (light : Bool) (r : Ray) (h : (c, true) ∉ rayMarks g light r) :
    rayMarks g' light r = rayMarks g light r := by
  induction r generalizing light with
  | nil => rfl
  | cons p ps ih =>
    simp only [rayMarks] at h ⊢
    simp only [List.mem_cons, not_or] at h
    obtain ⟨h1, h2⟩ := h
    by_cases hpc : p = c
    · subst hpc
      have hl : light = false := by
        cases light
        · rfl
        · exact absurd rfl h1
      subst hl
      simp only [Bool.false_and] at h2 ⊢
      rw [ih false h2]
    · rw [hag p hpc]
      rw [ih _ h2]

/-- making a vision-blocking cell transparent can only lengthen the lit part of a ray -/
theorem rayMarks_monotone (g g' : Grid)
    (hle : ∀ q, (g'.at q).blocksVision = true → (g.at q).blocksVision = true)
    (light light' : Bool) (hl : light = true → light' = true) (r : Ray) (q : Pos)
    (h : (q, true) ∈ rayMarks g light r) : (q, true) ∈ rayMarks g' light' r := by
  induction r generalizing light light' with
  | nil => simp [rayMarks] at h
  | cons p ps ih =>
    simp only [rayMarks, List.mem_cons] at h ⊢
    rcases h with h | h
    · left
      simp only [Prod.mk.injEq] at h ⊢
      exact ⟨h.1, (hl h.2.symm).symm⟩
    · right
      apply ih _ _ _ h
      intro hh
      simp only [Bool.and_eq_true, Bool.not_eq_true'] at hh ⊢
      refine ⟨hl hh.1, ?_⟩
      cases hb : (g'.at p).blocksVision
      · rfl
      · rw [hle p hb] at hh; cases hh.2

theorem countsNum_pos_iff (g : Grid) (rays : List Ray) (q : Pos) :
    1 ≤ countsNum g rays q ↔ ∃ r ∈ rays, (q, true) ∈ rayMarks g true r := by
  unfold countsNum
  induction rays with
  | nil => simp
  | cons r rs ih =>
    simp only [List.map_cons, List.sum_cons, List.mem_cons, exists_eq_or_imp]
    constructor
    · intro h
      by_cases h0 : ((rayMarks g true r).filter fun m => m.1 == q && m.2).length = 0
      · right; apply ih.mp; omega
      · left
        have : ((rayMarks g true r).filter fun m => m.1 == q && m.2) ≠ [] := by
          intro e; rw [e] at h0; exact h0 rfl
        obtain ⟨m, hm⟩ := List.exists_mem_of_ne_nil _ this
        simp only [List.mem_filter, Bool.and_eq_true, beq_iff_eq] at hm
        obtain ⟨hm1, hm2, hm3⟩ := hm
        have : m = (q, true) := by cases m; simp_all
        rw [← this]; exact hm1
    · rintro (h | h)
      · have : (q, true) ∈ (rayMarks g true r).filter fun m => m.1 == q && m.2 := by
          simp [List.mem_filter, h]
        have := List.length_pos_of_mem this
        omega
      · have := ih.mpr h; omega

end GV
