/-
  Correctness of the layered breadth-first search that models `reward_functions.dijkstra`:
  `bfsGo` returns `some d` exactly when `d` is the length of a shortest walk, and `none` exactly
  when there is no walk at all - for every free-cell predicate supported on a finite universe.
-/
import GridVerse.Model.Reward
import GridVerse.Lemmas.Positions
set_option linter.unusedSimpArgs false
set_option linter.unusedVariables false
namespace GV

/-- `Walk free src p n`: `p` is reached from `src` by `n` unit steps, each landing on a free cell
(the source itself needs not be free: `dijkstra` marks it visited whatever it holds). -/
inductive Walk (free : Pos → Bool) (src : Pos) : Pos → Nat → Prop
  | refl : Walk free src src 0
  | step {p q : Pos} {n : Nat} : Walk free src p n → q ∈ nbrs4 p → free q = true → Walk free src q (n + 1)

/-- `d` is the graph distance from `src` to `p` -/
def IsDist (free : Pos → Bool) (src p : Pos) (d : Nat) : Prop :=
  Walk free src p d ∧ ∀ m, m < d → ¬ Walk free src p m

theorem Walk.zero_iff {free src p} : Walk free src p 0 ↔ p = src := by
  constructor
  · intro h; cases h; rfl
  · rintro rfl; exact .refl

theorem Walk.succ_inv {free src q n} (h : Walk free src q (n + 1)) :
    ∃ p, Walk free src p n ∧ q ∈ nbrs4 p ∧ free q = true := by
  cases h with
  | step hp hq hf => exact ⟨_, hp, hq, hf⟩

theorem IsDist.unique {free src p d d'} (h : IsDist free src p d) (h' : IsDist free src p d') : d = d' := by
  rcases Nat.lt_trichotomy d d' with hlt | heq | hgt
  · exact absurd h.1 (h'.2 d hlt)
  · exact heq
  · exact absurd h'.1 (h.2 d' hgt)

/-- some walk ⇒ a shortest walk -/
theorem Walk.exists_isDist {free src p} : ∀ m, Walk free src p m → ∃ d, d ≤ m ∧ IsDist free src p d := by
  intro m
  induction m using Nat.strongRecOn with
  | _ m ih =>
    intro hw
    by_cases hs : ∃ m', m' < m ∧ Walk free src p m'
    · obtain ⟨m', hlt, hw'⟩ := hs
      obtain ⟨d, hd, hD⟩ := ih m' hlt hw'
      exact ⟨d, by omega, hD⟩
    · refine ⟨m, Nat.le_refl _, hw, ?_⟩
      intro m' hlt hw'
      exact hs ⟨m', hlt, hw'⟩

/-- the predecessor on a shortest walk is at distance one less -/
theorem IsDist.pred {free src p d} (h : IsDist free src p (d + 1)) : ∃ q, IsDist free src q d := by
  obtain ⟨q, hq, hn, hf⟩ := h.1.succ_inv
  refine ⟨q, hq, ?_⟩
  intro m hm hw
  exact h.2 (m + 1) (by omega) (.step hw hn hf)

theorem IsDist.prefix {free src p} : ∀ (j d : Nat), IsDist free src p (d + j) → ∃ q, IsDist free src q d := by
  intro j
  induction j generalizing p with
  | zero => intro d h; exact ⟨p, h⟩
  | succ j ih =>
    intro d h
    obtain ⟨q, hq⟩ := IsDist.pred (d := d + j) (by simpa [Nat.add_assoc] using h)
    exact ih d hq

/-! ### list facts -/

theorem nodup_eraseDups {α} [BEq α] [LawfulBEq α] : ∀ (n : Nat) (l : List α), l.length ≤ n → l.eraseDups.Nodup := by
  intro n
  induction n with
  | zero =>
    intro l hl
    have : l = [] := List.length_eq_zero_iff.mp (by omega)
    subst this
    simp
  | succ n ih =>
    intro l hl
    cases l with
    | nil => simp
    | cons a as =>
      rw [List.eraseDups_cons, List.nodup_cons]
      constructor
      · rw [List.mem_eraseDups, List.mem_filter]
        simp
      · apply ih
        have := List.length_filter_le (fun b => !b == a) as
        simp only [List.length_cons] at hl
        omega

theorem nodup_length_le {α} [DecidableEq α] : ∀ (l m : List α), l.Nodup → (∀ x ∈ l, x ∈ m) → l.length ≤ m.length := by
  intro l
  induction l with
  | nil => intros; simp
  | cons a l ih =>
    intro m hn hs
    rw [List.nodup_cons] at hn
    have ha : a ∈ m := hs a (List.mem_cons_self)
    have h1 : l.length ≤ (m.erase a).length := by
      apply ih _ hn.2
      intro x hx
      have hxm : x ∈ m := hs x (List.mem_cons_of_mem _ hx)
      have hne : x ≠ a := fun e => hn.1 (e ▸ hx)
      exact (List.mem_erase_of_ne hne).mpr hxm
    have h2 := List.length_erase_of_mem ha
    have h3 : 0 < m.length := List.length_pos_of_mem ha
    simp only [List.length_cons]
    omega

/-- the next layer computed by `bfsGo` -/
def bfsNext (free : Pos → Bool) (frontier visited : List Pos) : List Pos :=
  ((frontier.flatMap nbrs4).filter fun q => free q && !visited.contains q).eraseDups

theorem mem_bfsNext {free frontier visited q} :
    q ∈ bfsNext free frontier visited ↔
      (∃ f, f ∈ frontier ∧ q ∈ nbrs4 f) ∧ free q = true ∧ q ∉ visited := by
  simp only [bfsNext, List.mem_eraseDups, List.mem_filter, List.mem_flatMap, Bool.and_eq_true,
    Bool.not_eq_true', List.contains_eq_mem, decide_eq_false_iff_not]

/-! ### the invariant -/

structure BfsInv (free : Pos → Bool) (U : List Pos) (src tgt : Pos) (depth : Nat)
    (frontier visited : List Pos) : Prop where
  hF : ∀ p, p ∈ frontier ↔ IsDist free src p depth
  hV : ∀ p, p ∈ visited ↔ ∃ m, m ≤ depth ∧ Walk free src p m
  hN : visited.Nodup
  hU : ∀ p ∈ visited, p ∈ src :: U
  hJ : depth + frontier.length ≤ visited.length
  hT : ∀ m, m < depth → ¬ Walk free src tgt m

theorem BfsInv.init (free U src tgt) : BfsInv free U src tgt 0 [src] [src] where
  hF := by
    intro p
    simp only [List.mem_singleton, IsDist, Walk.zero_iff]
    constructor
    · intro h; exact ⟨h, fun m hm => by omega⟩
    · intro h; exact h.1
  hV := by
    intro p
    simp only [List.mem_singleton]
    constructor
    · rintro rfl; exact ⟨0, Nat.le_refl _, .refl⟩
    · rintro ⟨m, hm, hw⟩
      have : m = 0 := by omega
      subst this
      exact Walk.zero_iff.mp hw
  hN := by simp
  hU := by simp
  hJ := by simp
  hT := by intro m hm; omega

theorem BfsInv.next {free U src tgt depth frontier visited}
    (hfree : ∀ q, free q = true → q ∈ U)
    (I : BfsInv free U src tgt depth frontier visited)
    (ht : tgt ∉ frontier) (hne : frontier ≠ []) :
    BfsInv free U src tgt (depth + 1) (bfsNext free frontier visited)
      (visited ++ bfsNext free frontier visited) := by
  have hFnext : ∀ p, p ∈ bfsNext free frontier visited ↔ IsDist free src p (depth + 1) := by
    intro p
    rw [mem_bfsNext]
    constructor
    · rintro ⟨⟨f, hf, hn⟩, hfr, hnv⟩
      have hfd := (I.hF f).mp hf
      refine ⟨.step hfd.1 hn hfr, ?_⟩
      intro m hm hw
      exact hnv ((I.hV p).mpr ⟨m, by omega, hw⟩)
    · intro hD
      obtain ⟨q, hq, hn, hfr⟩ := hD.1.succ_inv
      refine ⟨⟨q, ?_, hn⟩, hfr, ?_⟩
      · rw [I.hF]
        refine ⟨hq, ?_⟩
        intro m hm hw
        exact hD.2 (m + 1) (by omega) (.step hw hn hfr)
      · intro hv
        obtain ⟨m, hm, hw⟩ := (I.hV p).mp hv
        exact hD.2 m (by omega) hw
  refine ⟨hFnext, ?_, ?_, ?_, ?_, ?_⟩
  · intro p
    rw [List.mem_append]
    constructor
    · rintro (hv | hn)
      · obtain ⟨m, hm, hw⟩ := (I.hV p).mp hv
        exact ⟨m, by omega, hw⟩
      · exact ⟨depth + 1, Nat.le_refl _, ((hFnext p).mp hn).1⟩
    · rintro ⟨m, hm, hw⟩
      by_cases hs : ∃ m', m' ≤ depth ∧ Walk free src p m'
      · exact Or.inl ((I.hV p).mpr hs)
      · right
        rw [hFnext]
        have hm' : m = depth + 1 := by
          rcases Nat.lt_or_ge depth m with h | h
          · omega
          · exact absurd ⟨m, h, hw⟩ hs
        subst hm'
        refine ⟨hw, ?_⟩
        intro m' hlt hw'
        exact hs ⟨m', by omega, hw'⟩
  · rw [List.nodup_append]
    refine ⟨I.hN, nodup_eraseDups _ _ (Nat.le_refl _), ?_⟩
    intro a ha b hb hab
    subst hab
    exact (mem_bfsNext.mp hb).2.2 ha
  · intro p hp
    rw [List.mem_append] at hp
    rcases hp with hv | hn
    · exact I.hU p hv
    · exact List.mem_cons_of_mem _ (hfree p (mem_bfsNext.mp hn).2.1)
  · have : 0 < frontier.length := List.length_pos_iff.mpr hne
    have := I.hJ
    simp only [List.length_append]
    omega
  · intro m hm hw
    rcases Nat.lt_or_ge m depth with h | h
    · exact I.hT m h hw
    · have : m = depth := by omega
      subst this
      exact ht ((I.hF tgt).mpr ⟨hw, I.hT⟩)

/-- an empty layer means that nothing lies at that distance or beyond -/
theorem BfsInv.no_walk_of_empty {free U src tgt depth visited}
    (I : BfsInv free U src tgt depth [] visited) : ∀ m, ¬ Walk free src tgt m := by
  intro m hw
  obtain ⟨d, hd, hD⟩ := Walk.exists_isDist m hw
  have hge : depth ≤ d := by
    rcases Nat.lt_or_ge d depth with h | h
    · exact absurd hD.1 (I.hT d h)
    · exact h
  obtain ⟨q, hq⟩ := IsDist.prefix (d - depth) depth (by rwa [Nat.add_sub_cancel' hge])
  have := (I.hF q).mpr hq
  simp at this

theorem BfsInv.visited_le {free U src tgt depth frontier visited}
    (I : BfsInv free U src tgt depth frontier visited) : visited.length ≤ U.length + 1 := by
  have := nodup_length_le visited (src :: U) I.hN I.hU
  simpa using this

theorem bfsGo_succ (free : Pos → Bool) (tgt : Pos) (fuel depth : Nat) (frontier visited : List Pos) :
    bfsGo free tgt (fuel + 1) depth frontier visited =
      if frontier.contains tgt = true then some depth
      else if frontier.isEmpty = true then none
      else bfsGo free tgt fuel (depth + 1) (bfsNext free frontier visited)
        (visited ++ bfsNext free frontier visited) := rfl

theorem bfsGo_correct (free : Pos → Bool) (U : List Pos) (hfree : ∀ q, free q = true → q ∈ U)
    (src tgt : Pos) :
    ∀ (fuel depth : Nat) (frontier visited : List Pos),
      BfsInv free U src tgt depth frontier visited → U.length + 1 ≤ fuel + depth →
      match bfsGo free tgt fuel depth frontier visited with
      | some d => IsDist free src tgt d
      | none => ∀ m, ¬ Walk free src tgt m := by
  intro fuel
  induction fuel with
  | zero =>
    intro depth frontier visited I hfuel
    simp only [bfsGo]
    have h1 := I.visited_le
    have h2 := I.hJ
    have : frontier = [] := List.length_eq_zero_iff.mp (by omega)
    subst this
    exact I.no_walk_of_empty
  | succ fuel ih =>
    intro depth frontier visited I hfuel
    rw [bfsGo_succ]
    by_cases hc : frontier.contains tgt = true
    · rw [if_pos hc]
      have : tgt ∈ frontier := by simpa using hc
      exact (I.hF tgt).mp this
    · rw [if_neg hc]
      have htn : tgt ∉ frontier := by simpa using hc
      by_cases he : frontier.isEmpty = true
      · rw [if_pos he]
        have : frontier = [] := by simpa using he
        subst this
        exact I.no_walk_of_empty
      · rw [if_neg he]
        have hne : frontier ≠ [] := by simpa using he
        exact ih (depth + 1) _ _ (I.next hfree htn hne) (by omega)

/-! ### instantiation on grids -/

/-- `layout[y][x]`: inside the grid and not blocking movement -/
def Grid.freeCell (g : Grid) (q : Pos) : Bool := g.contains q && !(g.at q).blocksMovement

theorem flatMap_range_length {α} (w : Nat) (f : Nat → Nat → α) :
    ∀ h, ((List.range h).flatMap fun i => (List.range w).map (f i)).length = h * w := by
  intro h
  induction h with
  | zero => simp
  | succ h ih =>
    rw [List.range_succ, List.flatMap_append, List.length_append, ih]
    simp [Nat.succ_mul]

theorem Grid.positions_length (g : Grid) : g.positions.length = g.h * g.w := by
  unfold Grid.positions
  exact flatMap_range_length _ _ _

theorem shortestPath_correct (g : Grid) (src tgt : Pos) :
    match shortestPath g src tgt with
    | some d => IsDist g.freeCell src tgt d
    | none => ∀ m, ¬ Walk g.freeCell src tgt m := by
  have h := bfsGo_correct g.freeCell g.positions
    (by
      intro q hq
      rw [Grid.mem_positions]
      simp only [Grid.freeCell, Bool.and_eq_true] at hq
      exact hq.1)
    src tgt (g.h * g.w + 1) 0 [src] [src] (BfsInv.init _ _ _ _)
    (by rw [Grid.positions_length]; omega)
  exact h

theorem shortestPath_some_iff (g : Grid) (src tgt : Pos) (d : Nat) :
    shortestPath g src tgt = some d ↔ IsDist g.freeCell src tgt d := by
  have h := shortestPath_correct g src tgt
  constructor
  · intro e; rw [e] at h; exact h
  · intro hD
    cases he : shortestPath g src tgt with
    | none => rw [he] at h; exact absurd hD.1 (h d)
    | some d' => rw [he] at h; rw [IsDist.unique h hD]

theorem shortestPath_none_iff (g : Grid) (src tgt : Pos) :
    shortestPath g src tgt = none ↔ ∀ m, ¬ Walk g.freeCell src tgt m := by
  have h := shortestPath_correct g src tgt
  constructor
  · intro e; rw [e] at h; exact h
  · intro hn
    cases he : shortestPath g src tgt with
    | none => rfl
    | some d' => rw [he] at h; exact absurd h.1 (hn d')

end GV
