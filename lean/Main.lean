import GridVerse.Model.Driver
open GV.Driver

partial def loop (hin : IO.FS.Stream) (hout : IO.FS.Stream) : IO Unit := do
  let line ← hin.getLine
  if line.isEmpty then return ()
  let l := if line.endsWith "\n" then (line.dropEnd 1).toString else line
  hout.putStrLn (handleLine l)
  loop hin hout

def main : IO Unit := do
  let hin ← IO.getStdin
  let hout ← IO.getStdout
  loop hin hout
